"""C04: refinement never loses exactness the initial configuration had.

(a) dimension-wise strategy (SpatiallyAdaptiveSingleDimensions2, GlobalTrapezoidalGrid): scripted refinement histories on the
    real strategy with a VECTOR-VALUED integrand whose component 0 is an arbitrary refinement-driving function and whose other
    components are ALL hierarchical hat functions of the initial (lmin,lmax) sparse-grid space (modified basis: products of
    linear functions).  After every step the reported integral of every component (performSpatiallyAdaptiv(...)[3]) and the
    combined interpolant sa(points) at lattice / grid points are compared with the analytic values (= the property's own
    predicate) and with the extracted Coq model (Entry/C04.v sub 0 / sub 1: Model/DimWise.v + Model/DimWiseExact.v).
(b) extend-split (SpatiallyAdaptiveExtendScheme, TrapezoidalGrid with boundary) and the cell strategy
    (SpatiallyAdaptiveCellScheme): the reported integral of every multilinear monomial x^e, e in {0,1}^d equals the exact
    moment of the domain after every step; for extend-split the observed areas with their computed component grids are
    additionally fed to the verified checkers moments_additive / valid_local_combi and to the model value es_integral
    (Entry/C04.v sub 2)."""
import itertools
import random
import zlib
from fractions import Fraction
from .. import sx
from ..impl import run_impl
from ..model import run_model
from . import dimwise as dw

PROP = 4
TOL = 1e-11          # rounded class: |impl - exact| <= TOL * (1 + |exact|); inputs are dyadic, most values are bit exact

ASSUMPTIONS = [
    'coordinates/benefits on dyadic lattices: interval end points, hat values and the margin test are exact in binary64',
    'rebalancing test and version-3 rounding are decided in binary64: the model takes the set of arguments on which binary64 and exact '
    'arithmetic differ as an input computed by the harness with the same Python expression (as C03/C06)',
    'GlobalTrapezoidalGrid only; chebyshev / weighted mid points / force_balanced_refinement_tree not modelled',
    'initial sparse-grid space = span of the hierarchical hats (j,i) with sum_d max(j_d,lmin) <= lmax + (d-1) lmin (levels from 0 with boundary '
    'points, from 1 without); every one of them is checked to be exact in the INITIAL state of the implementation before it is demanded later',
    'modified basis: integrals of products of linear functions (incl. every coordinate function and 1); the interpolant of the implementation '
    'does not extrapolate to the boundary (zero boundary values), so the initial configuration does not interpolate linear functions exactly and '
    'the interpolant is outside the property there',
    'extend-split automatic_extend_split decisions depend on float error estimates of the integrand: they are not modelled here; the observed '
    'areas and their computed component grids are the input of the verified checkers',
    'cell strategy: implementation-only oracle (no model); supported configuration lmin = lmax',
    'rounded observables compared purely relatively: |impl - exact| <= 1e-11 * (natural scale of the quantity: |exact integral| of a hat, amplitude of a hat value, '
    'prod_d max|factor| * volume for products of linear functions and monomials); function amplitudes 2^k are divided out exactly before the comparison',
    'float32 bounds are only generated where float32 represents the grid coordinates down to level 12 (beyond that the library computes in float32 and '
    'collapses grid points: ValueError from scipy interpn on the unchanged tree)',
    'observer calls: the values of the property\'s functions must be unchanged; the arbitrary driver component is only counted (evaluate_final_combi does '
    'not reproduce its accumulated value under automatic_extend_split - a statement of C05, not of C04)',
]

BOXES = [(0.0, 1.0), (0.0, 1.0), (-1.0, 1.0), (0.5, 2.0), (-3.0, 6.0), (2.0, 2.25)]


# =============================================================================================== (a) dimension-wise
def initial_hats(dim, lmin, lmax, boundary):
    lo = 0 if boundary else 1
    out = []
    for j in itertools.product(range(lo, lmax + 1), repeat=dim):
        if sum(max(x, lmin) for x in j) <= lmax + (dim - 1) * lmin:
            idx = [([0, 1] if jj == 0 else list(range(1, 2 ** jj, 2))) for jj in j]
            for i in itertools.product(*idx):
                out.append((list(j), list(i)))
    return out


def hat1_exact(a, b, j, i, x):
    h = (b - a) / 2 ** j
    c = a + i * h
    t = abs(x - c) / h
    return 1 - t if t <= 1 else Fraction(0)


def hat_value(a, b, j, i, x):
    v = Fraction(1)
    for d in range(len(a)):
        v *= hat1_exact(a[d], b[d], j[d], i[d], x[d])
    return v


def hat_integral(a, b, j, i):
    v = Fraction(1)
    for d in range(len(a)):
        h = (b[d] - a[d]) / 2 ** j[d]
        v *= h / 2 if (i[d] == 0 or i[d] == 2 ** j[d]) else h
    return v


def lin_value(cf, x):
    v = Fraction(1)
    for (al, be), xd in zip(cf, x):
        v *= al * xd + be
    return v


def lin_integral(a, b, cf):
    v = Fraction(1)
    for (al, be), ad, bd in zip(cf, a, b):
        v *= al * (bd * bd - ad * ad) / 2 + be * (bd - ad)
    return v


def gen_lin_fns(rng, dim):
    """products of linear functions prod_d (alpha_d x_d + beta_d): 1, every coordinate function, random products"""
    one = [[Fraction(0), Fraction(1)] for _ in range(dim)]
    fns = [one]
    for d in range(dim):
        f = [list(x) for x in one]
        f[d] = [Fraction(1), Fraction(0)]
        fns.append(f)
    for _ in range(4):
        fns.append([[Fraction(rng.choice([0, 1, 1, -1, 2, 3]), rng.choice([1, 2])), Fraction(rng.choice([0, 1, 2, -1, 5]), rng.choice([1, 2, 4]))]
                    for _ in range(dim)])
    return fns


# ---- the axes of the blind-seeding lessons (harness/AGENT_NOTE_HISTORIES.txt) -----------------------------------------------
# magnitudes (d): domains far from the origin, tiny boxes, both; all dyadic, every grid coordinate exact in binary64
DW_BOXES = BOXES + [(2.0 ** 20, 2.0 ** 20 + 1.0), (-3 * 2.0 ** 10, -3 * 2.0 ** 10 + 0.5), (2.0 ** 20, 2.0 ** 20 + 2.0 ** -8),
                    (0.0, 2.0 ** -30), (2.0 ** -30, 2.0 ** -30 + 2.0 ** -40), (-2.0 ** -20, 2.0 ** -20)]
AMPS = [0, 0, 0, -60, -30, -10, 10, 30]                       # function components are scaled by 2^k
ARGMODES = ['same', 'same', 'copies', 'views', 'fortran', 'strided', 'list', 'tuple', 'int', 'f32']
OBSERVERS = ['num_points', 'final_combi', 'get_result', 'check_scheme', 'call', 'num_each_dim', 'points_weights']
CONTMODES = ['a', 'a', 'b', 'c', 'd', 'e']
SENTINEL = -7.25e250


def gen_case_dw(rng, tier, small=False):
    c = dw.gen_case(rng, tier, 0)
    r = rng.random()
    if r < 0.14:                                              # (i) d = 1
        c['dim'] = 1
        c['lmin'] = rng.choice([1, 1, 2, 3])
        c['lmax'] = c['lmin'] + rng.choice([0, 1, 2]) if c['lmin'] > 1 else rng.choice([2, 3, 4])
        c['steps'] = rng.randrange(1, 6)
    dim = c['dim']
    # the number of hats grows quickly: keep the vector-valued integrand below ~300 components
    if dim == 4:
        c['lmin'], c['lmax'], c['steps'] = 1, 2, min(c['steps'], 2)
    if dim == 3 and c['lmax'] >= 3:
        c['lmin'], c['lmax'] = (1, 3) if rng.random() < 0.3 else (rng.choice([1, 2]), rng.choice([2, 3]))
        if c['lmin'] >= c['lmax']:
            c['lmin'] = c['lmax'] - 1
        if c['lmax'] < 2:
            c['lmax'] = 2
        c['steps'] = min(c['steps'], 3 if c['lmax'] >= 3 else 4)
    if dim == 2 and rng.random() < 0.12:                      # (i) lmin = lmax, larger lmin
        c['lmin'], c['lmax'] = rng.choice([(2, 2), (3, 3), (3, 4)])
        c['steps'] = min(c['steps'], 3)
    if small:
        c['dim'] = dim = 2
        c['lmin'], c['lmax'], c['steps'] = 1, 2, 2
    ab = [rng.choice(DW_BOXES) for _ in range(dim)]
    c['a'], c['b'] = [x[0] for x in ab], [x[1] for x in ab]
    c['mb'] = rng.random() < 0.15
    if c['mb']:
        c['boundary'] = False
    c['amp'] = rng.choice(AMPS)
    c['argmode'] = rng.choice(ARGMODES)
    c['ptsmode'] = rng.choice(['list', 'list', 'array'])
    c['sentinel'] = rng.random() < 0.5
    c['observers'] = [([rng.choice(OBSERVERS) for _ in range(rng.randrange(1, 4))] if rng.random() < 0.4 else []) for _ in range(c['steps'] + 1)]
    c['cont'] = [rng.choice(CONTMODES) for _ in range(c['steps'])]
    c['legs'] = []
    if not small and rng.random() < 0.3 and dim <= 3:          # (f) the SAME object is started again with another level range
        l0 = rng.choice([1, 1, 2])
        l1 = max(2, l0 + rng.choice([0, 1, 1]))
        if dim == 3:
            l1 = min(l1, 2 if l0 == 1 else 3)
        c['legs'].append(dict(lmin=l0, lmax=l1, steps=rng.randrange(0, 3), seed=rng.randrange(1 << 30)))
    # the interpolant is evaluated for every hat at every point (model: 2^d function evaluations per component): bound hats x points
    nh = len(initial_hats(dim, c['lmin'], c['lmax'], c['boundary'])) if not c['mb'] else 0
    c['npts'] = max(1, min(6, 400 // max(nh, 1)))
    return c


def gen_case_eq(rng):
    """EQUAL start levels lmin == lmax (the initial space is the full grid of that level): steps that raise lmax in single dimensions while
    other regions are never refined (benefit modes single / few / one-dim), mostly versions 6/7/8 without rebalancing"""
    c = gen_case_dw(rng, 'quick', small=True)
    dim = rng.choice([2, 2, 3])
    lev = rng.choice([2, 2, 3]) if dim == 2 else 2
    ab = [rng.choice(DW_BOXES) for _ in range(dim)]
    c.update(dim=dim, lmin=lev, lmax=lev, steps=rng.randrange(2, 5), a=[x[0] for x in ab], b=[x[1] for x in ab], mb=False, legs=[],
             version=rng.choice([6, 6, 7, 8, 6, 7, 8, 2, 3]), rebalancing=rng.random() < 0.3, boundary=rng.random() < 0.5,
             benmodes=['single', 'few', 'one-dim', 'single'])
    c['observers'] = [[] for _ in range(c['steps'] + 1)]
    c['cont'] = [rng.choice(CONTMODES) for _ in range(c['steps'])]
    nh = len(initial_hats(dim, lev, lev, c['boundary']))
    c['npts'] = max(1, min(6, 400 // max(nh, 1)))
    return c


def gen_case_big(rng):
    """(h) sizes beyond internal thresholds: component grids with > 1024 points and a single interpolation call with > 2048 points"""
    c = gen_case_dw(rng, 'quick', small=True)
    c.update(dim=2, lmin=rng.choice([1, 2]), lmax=5, steps=1, a=[0.0, -1.0], b=[1.0, 1.0], mb=False, legs=[], npts=1, bigpts=rng.choice([2049, 2500]),
             observers=[[], ['num_points']], cont=['a'], boundary=rng.random() < 0.5)
    return c


def leg_configs(case):
    """[(lmin, lmax, steps or None, fixed bens or None, seed)] of all legs of the history on ONE object"""
    out = [(case['lmin'], case['lmax'], case['steps'], case.get('bens'), case['seed'])]
    for lg in case.get('legs') or []:
        out.append((lg['lmin'], lg['lmax'], lg['steps'], lg.get('bens'), lg['seed']))
    return out


def _make_dw_function(case, hats, fns):
    import numpy as np
    from sparseSpACE.Function import Function
    dim = case['dim']
    a = [float(x) for x in case['a']]
    b = [float(x) for x in case['b']]
    amp = 2.0 ** case.get('amp', 0)
    # distinct 1D hats per dimension and the index table of the tensor hats
    tabs, index = [], []
    for d in range(dim):
        keys = sorted(set((j[d], i[d]) for j, i in hats))
        pos = {k: n for n, k in enumerate(keys)}
        tabs.append(keys)
        index.append(np.array([pos[(j[d], i[d])] for j, i in hats], dtype=int))
    lin = [[(float(al), float(be)) for al, be in cf] for cf in fns]

    class VecF(Function):
        def output_length(self):
            return 1 + len(hats) + len(lin)

        def eval_vectorized(self, coordinates):
            x = np.asarray(coordinates, dtype=float)
            if x.ndim != 2:
                return super().eval_vectorized(coordinates)
            out = np.empty((x.shape[0], self.output_length()))
            out[:, 0] = np.sum(x * x, axis=1) + np.prod(x + 1.5, axis=1)      # the refinement-driving component (unused: errors are scripted)
            if hats:
                prod = np.ones((x.shape[0], len(hats)))
                for d in range(dim):
                    cols = np.empty((x.shape[0], len(tabs[d])))
                    for n, (j, i) in enumerate(tabs[d]):
                        h = (b[d] - a[d]) / 2 ** j
                        c = a[d] + i * h
                        cols[:, n] = np.maximum(0.0, 1.0 - np.abs(x[:, d] - c) / h)
                    prod *= cols[:, index[d]]
                out[:, 1:1 + len(hats)] = amp * prod
            for n, cf in enumerate(lin):
                v = np.ones(x.shape[0])
                for d, (al, be) in enumerate(cf):
                    v = v * (al * x[:, d] + be)
                out[:, 1 + len(hats) + n] = amp * v
            return out

        def eval(self, coordinates):
            return self.eval_vectorized(np.asarray([coordinates], dtype=float))[0]
    return VecF()


def make_bounds(case, mode):
    """(b) argument-object variants of the domain bounds: returns (A, B) for the grid and (A2, B2) for the strategy"""
    import numpy as np
    a = [float(x) for x in case['a']]
    b = [float(x) for x in case['b']]
    if mode == 'int' and not all(x == int(x) for x in a + b):
        mode = 'same'
    if mode == 'f32' and not all(float(np.float32(x + (y - x) * k / 4096.0)) == x + (y - x) * k / 4096.0 for x, y in zip(a, b) for k in (0, 1, 4095, 4096)):
        mode = 'same'             # float32 bounds only where float32 can represent the grid coordinates down to level 12
    if mode == 'copies':
        return (np.array(a), np.array(b)), (np.array(a), np.array(b)), mode
    if mode == 'views':
        p = np.array([a, b, [9.5] * len(a)])
        return (p[0], p[1]), (p[0], p[1]), mode
    if mode == 'fortran':
        p = np.asfortranarray(np.array([a, b]))
        return (p[0, :], p[1, :]), (p[0, :], p[1, :]), mode
    if mode == 'strided':
        p = np.zeros(2 * len(a) + 1)
        q = np.zeros(2 * len(a) + 1)
        p[::2][:len(a)] = a
        q[1::2][:len(a)] = b
        return (p[::2][:len(a)], q[1::2][:len(a)]), (p[::2][:len(a)], q[1::2][:len(a)]), mode
    if mode == 'list':
        A, B = list(a), list(b)
    elif mode == 'tuple':
        A, B = tuple(a), tuple(b)
    elif mode == 'int':
        A, B = np.array([int(x) for x in a]), np.array([int(x) for x in b])
    elif mode == 'f32':
        A, B = np.array(a, dtype=np.float32), np.array(b, dtype=np.float32)
    else:
        A, B = np.array(a), np.array(b)
        mode = 'same'
    return (A, B), (A, B), mode


def _frozen(x):
    import numpy as np
    if isinstance(x, np.ndarray):
        return ('nd', x.dtype.str, x.shape, x.tobytes())
    return ('py', repr(x))


def steps_dw(case):
    """Generator: one history on ONE real dimension-wise strategy object (several legs = further performSpatiallyAdaptiv calls on the same
    object); yields after every library call (a companion instance of another case is advanced there), returns the observations."""
    import numpy as np
    from sparseSpACE.spatiallyAdaptiveSingleDimension2 import SpatiallyAdaptiveSingleDimensions2
    from sparseSpACE.ErrorCalculator import ErrorCalculator
    from sparseSpACE.Grid import GlobalTrapezoidalGrid
    from sparseSpACE.GridOperation import Integration

    dim = case['dim']
    margin = dw.margin_of(case)
    mb = bool(case.get('mb'))
    frng = random.Random(case['seed'] ^ 0x0c04)
    legs = leg_configs(case)
    hats = []
    if not mb:
        for lmin, lmax, _, _, _ in legs:
            for h in initial_hats(dim, lmin, lmax, case['boundary']):
                if h not in hats:
                    hats.append(h)
    fns = gen_lin_fns(frng, dim) if mb else []
    f = _make_dw_function(case, hats, fns)
    ampf = 2.0 ** case.get('amp', 0)
    (A, B), (A2, B2), argmode = make_bounds(case, case.get('argmode', 'same'))
    st_rng = {'rng': None, 'fixed': None}

    class Scripted(ErrorCalculator):
        def __init__(self):
            super().__init__()
            self.sa = None
            self.table = None
            self.round = 0
            self.modes = []

        def calc_error(self, refine_object, norm, volume_weights=None):
            if self.table is None:
                conts = [self.sa.refinement.get_refinement_container_for_dim(d) for d in range(dim)]
                sizes = [c.size() for c in conts]
                fixed = st_rng['fixed']
                if fixed is not None and self.round < len(fixed):
                    bens = [[float(Fraction(*x)) if isinstance(x, (list, tuple)) else float(x) for x in bd] for bd in fixed[self.round]]
                    mode = 'fixed'
                else:
                    mode, bens = dw.gen_benefits(st_rng['rng'], sizes, margin, mode=(st_rng['rng'].choice(case['benmodes']) if case.get('benmodes') else None))
                self.modes.append(mode)
                self.table = {}
                for d, c in enumerate(conts):
                    for i, o in enumerate(c.get_objects()):
                        self.table[(d, o.start)] = bens[d][i] if i < len(bens[d]) else 0.0
            return self.table[(refine_object.this_dim, refine_object.start)]

    grid = GlobalTrapezoidalGrid(A, B, boundary=case['boundary'], modified_basis=mb)
    op = Integration(f, grid=grid, dim=dim, reference_solution=None)
    kw = dict(version=case['version'], operation=op, rebalancing=case['rebalancing'], rebalancing_safety_factor=case['safety'])
    if case['margin'] is not None:
        kw['margin'] = case['margin']
    sa = SpatiallyAdaptiveSingleDimensions2(A2, B2, **kw)
    yield
    # evaluation points of the interpolant: lattice k/32 of the box and points of the lattice of level lmax+2 (grid points of the
    # initial tree and points that become grid points by refinement)
    aq = [Fraction(x) for x in case['a']]
    bq = [Fraction(x) for x in case['b']]
    pts = case.get('pts')
    if pts is None:
        pts = []
        for n in range(case.get('npts', 6)):
            den = 32 if n % 2 == 0 else 2 ** (case['lmax'] + (n // 2) % 3)
            pts.append([aq[k] + (bq[k] - aq[k]) * Fraction(frng.randrange(0, den + 1), den) for k in range(dim)])
    else:
        pts = [[Fraction(*x) for x in p] for p in pts]
    allpts = list(pts)
    for _ in range(max(0, case.get('bigpts', 0) - len(pts))):      # (h) one big interpolation call: oracle only
        allpts.append([aq[k] + (bq[k] - aq[k]) * Fraction(frng.randrange(0, 1025), 1024) for k in range(dim)])
    fpts = [tuple(float(x) for x in p) for p in allpts]
    if case.get('ptsmode') == 'array':
        fpts_arg = np.array(fpts)
    else:
        fpts_arg = list(fpts)
    # (a) argument immutability: every object handed to the library, frozen at hand-over
    handed = {'a (grid)': A, 'b (grid)': B, 'a (strategy)': A2, 'b (strategy)': B2, 'interpolation points': fpts_arg}
    frozen = {k: _frozen(v) for k, v in handed.items()}
    mutated, aliasing, observer_notes = [], [], []

    def check_args(where):
        for k, v in handed.items():
            if _frozen(v) != frozen[k] and not any(m[0] == k for m in mutated):
                mutated.append([k, where, str(v)[:120]])

    def normalised(v):
        v = np.asarray(v, dtype=float).ravel().copy()
        v[1:] = v[1:] / ampf
        return [float(x) for x in v]

    def observe(res, legno, step):
        st = dw._snapshot(sa, 0)
        st['integral'] = normalised(res[3])
        st['interp'] = None
        vals = None
        if not mb and fpts:
            vals = sa(fpts_arg)
            check_args('leg %d step %d: __call__' % (legno, step))
            arr = np.asarray(vals, dtype=float)
            st['interp'] = [normalised(row) for row in arr]
        if case.get('sentinel'):
            # (c) returned-object aliasing: overwrite what the calls returned; the live object must not see it
            for name, obj in (('performSpatiallyAdaptiv/continue_adaptive_refinement()[3]', res[3]), ('__call__ result', vals)):
                if isinstance(obj, np.ndarray) and obj.flags.writeable:
                    obj[...] = SENTINEL
                elif isinstance(obj, list):
                    for k in range(len(obj)):
                        if isinstance(obj[k], np.ndarray):
                            obj[k][...] = SENTINEL
                        else:
                            obj[k] = SENTINEL
            now = normalised(op.get_result())
            if now != st['integral'] and not aliasing:
                aliasing.append(['reported result', 'leg %d step %d' % (legno, step), str(now[:3])])
            if vals is not None:
                again = np.asarray(sa(fpts_arg), dtype=float)
                if [normalised(row) for row in again] != st['interp'] and not aliasing:
                    aliasing.append(['__call__ result', 'leg %d step %d' % (legno, step), str(again[0][:3])])
        return st

    def run_observers(names, legno, step):
        """(e) public observer calls on the live object between the steps; the reported result must not change"""
        before = normalised(op.get_result())
        for name in names:
            try:
                if name == 'num_points':
                    sa.get_total_num_points()
                elif name == 'final_combi':
                    sa.evaluate_final_combi()
                elif name == 'get_result':
                    op.get_result()
                elif name == 'check_scheme':
                    sa.check_combi_scheme()
                elif name == 'call':
                    sa(fpts_arg[:2]) if len(fpts) else None
                elif name == 'num_each_dim':
                    sa.get_num_points_each_dim()
                elif name == 'points_weights':
                    if max(len(t) for t in dw._snapshot(sa, 0)['trees']) <= 12 and dim <= 3:
                        sa.get_points_and_weights()
            except Exception as e:
                observer_notes.append([name, type(e).__name__, str(e)[:100], 'leg %d step %d' % (legno, step)])
            check_args('leg %d step %d: observer %s' % (legno, step, name))
        after = normalised(op.get_result())
        if after != before:                                  # decided by the checker with the natural scales (re-evaluation may round differently)
            observer_notes.append(['result-after-observers', 'observers %s' % names, 'leg %d step %d' % (legno, step), before, after])

    def cont(mode):
        if mode == 'b':
            return sa.continue_adaptive_refinement(tol=-1, max_evaluations=2)
        if mode == 'c':
            return sa.continue_adaptive_refinement(tol=-1, max_time=0.0)
        if mode == 'd':
            return sa.continue_adaptive_refinement(-1, None, 1)
        if mode == 'e':
            return sa.continue_adaptive_refinement(tol=-1, max_evaluations=1, min_evaluations=0)
        return sa.continue_adaptive_refinement(tol=-1, max_evaluations=1)

    out_legs = []
    for legno, (lmin, lmax, steps, fixed, seed) in enumerate(legs):
        st_rng['rng'] = random.Random(seed)
        st_rng['fixed'] = fixed
        ec = Scripted()
        ec.sa = sa
        res = sa.performSpatiallyAdaptiv(lmin, lmax, ec, tol=-1, max_evaluations=1, print_output=False)
        check_args('leg %d: performSpatiallyAdaptiv' % legno)
        yield
        states = [observe(res, legno, 0)]
        bens_used, selected, max_size = [], [], 0
        nsteps = len(fixed) if fixed is not None else steps
        for step in range(nsteps):
            obs = (case.get('observers') or [])
            if legno == 0 and step < len(obs) and obs[step]:
                run_observers(obs[step], legno, step)
                yield
            conts = [sa.refinement.get_refinement_container_for_dim(d) for d in range(dim)]
            bens_used.append([[sx.rat(o.benefit) for o in c.get_objects()] for c in conts])
            before = [[(o.start, o.end) for o in c.get_objects()] for c in conts]
            sa.refine()
            check_args('leg %d step %d: refine' % (legno, step + 1))
            yield
            after = [set((o.start, o.end) for o in sa.refinement.get_refinement_container_for_dim(d).get_objects()) for d in range(dim)]
            selected.append([[i for i, se in enumerate(before[d]) if se not in after[d]] for d in range(dim)])
            ec.table = None
            ec.round += 1
            cm = (case.get('cont') or [])
            res = cont(cm[step] if legno == 0 and step < len(cm) else 'a')
            check_args('leg %d step %d: continue_adaptive_refinement' % (legno, step + 1))
            yield
            states.append(observe(res, legno, step + 1))
            max_size = max(max_size, max(len(t) for t in states[-1]['trees']))
        leg_hats = initial_hats(dim, lmin, lmax, case['boundary']) if not mb else []
        sel = [0] + [1 + hats.index(h) for h in leg_hats] + [1 + len(hats) + n for n in range(len(fns))]
        for st in states:                    # components of THIS leg: driver, the hats of its initial space, the linear products
            st['integral'] = [st['integral'][k] for k in sel]
            if st['interp'] is not None:
                st['interp'] = [[row[k] for k in sel] for row in st['interp']]
        out_legs.append(dict(states=states, bens=bens_used, selected=selected, modes=ec.modes, max_size=max_size, lmin=lmin, lmax=lmax,
                             hats=leg_hats, fns=fns, pts=pts))
    return dict(legs=out_legs, mutated=mutated, aliasing=aliasing, observer_notes=observer_notes, argmode=argmode,
                allpts=allpts if case.get('bigpts') else None)


def _drive(gen, companion):
    """advance the primary history; after each of its library calls advance the companion instance (other case, same process)"""
    comp_exc = None
    while True:
        try:
            next(gen)
        except StopIteration as e:
            return e.value, comp_exc
        if companion is not None:
            try:
                next(companion)
            except StopIteration:
                companion = None
            except Exception as e:          # the companion's own failure is reported, the primary goes on alone
                comp_exc = [type(e).__name__, str(e)[:200]]
                companion = None


def _steps_of(case):
    return steps_dw(case) if case.get('strategy', 'dw') == 'dw' else steps_es(case)


def impl_dw(case):
    comp = case.get('companion')
    res, comp_exc = _drive(steps_dw(case), _steps_of(comp) if comp else None)
    res['companion_exc'] = comp_exc
    return res


def jsonable_bens(bens):
    return [[[[b.numerator, b.denominator] for b in bd] for bd in st] for st in bens]


def jsonable_pts(pts):
    return [[[x.numerator, x.denominator] for x in p] for p in pts]


def close(x, exact, scale=None):
    """rounded class, purely relative: |impl - exact| <= TOL * scale, scale = |exact| unless a natural scale of the quantity is given"""
    ex = float(exact)
    s_ = abs(ex) if scale is None else float(scale)
    return abs(x - ex) <= TOL * s_ or x == ex


def scales_dw(case, r):
    """natural scales (amplitude 1; the worker divides by the amplitude): integral / point value of every function of the leg"""
    a = [Fraction(x) for x in case['a']]
    b = [Fraction(x) for x in case['b']]
    vol = Fraction(1)
    for ad, bd in zip(a, b):
        vol *= bd - ad
    sint, sval = [], []
    for j, i in r['hats']:
        sint.append(hat_integral(a, b, j, i))
        sval.append(Fraction(1))
    for cf in r['fns']:
        m = Fraction(1)
        for (al, be), ad, bd in zip(cf, a, b):
            m *= max(abs(al * ad + be), abs(al * bd + be))
        sint.append(m * vol)
        sval.append(m)
    return sint, sval


def oracle_dw(case, r):
    """The property's own predicate on the implementation alone, for one leg (= one run of performSpatiallyAdaptiv + refinement steps).
    Returns (initial_defects, first_loss, int_ok_states) where int_ok_states[k] = all integrals exact in state k and first_loss is None or
    dict(step, observable, what, impl, exact[, point]) for the first state in which a function that the INITIAL state treated exactly
    is no longer integrated / interpolated exactly."""
    a = [Fraction(x) for x in case['a']]
    b = [Fraction(x) for x in case['b']]
    hats, fns = r['hats'], r['fns']
    pts = r.get('allpts') or r['pts']
    names = [('hat', j, i) for j, i in hats] + [('lin', cf) for cf in fns]
    sint, sval = scales_dw(case, r)
    exact_int = [hat_integral(a, b, j, i) for j, i in hats] + [lin_integral(a, b, cf) for cf in fns]
    exact_val = [[hat_value(a, b, j, i, p) for j, i in hats] for p in pts]
    initial_defects = []
    int_ok_states = [all(close(st['integral'][1 + n], ex, sint[n]) for n, ex in enumerate(exact_int)) for st in r['states']]
    ok_int = [True] * len(names)
    ok_val = [[True] * len(hats) for _ in pts]
    for step, st in enumerate(r['states']):
        integ = st['integral'][1:]
        for n, ex in enumerate(exact_int):
            good = close(integ[n], ex, sint[n])
            if step == 0:
                ok_int[n] = good
                if not good:
                    initial_defects.append(dict(observable='integral', what=names[n], impl=integ[n], exact=str(ex)))
            elif ok_int[n] and not good:
                return initial_defects, dict(step=step, observable='integral', what=names[n], impl=integ[n], exact=str(ex)), int_ok_states
        if st['interp'] is not None and len(st['interp']) != len(pts):
            return initial_defects, dict(step=step, observable='interpolant', what='number of returned values', impl=len(st['interp']),
                                         exact=str(len(pts))), int_ok_states
        if st['interp'] is not None:
            for k, p in enumerate(pts):
                row = st['interp'][k][1:]
                for n in range(len(hats)):
                    good = close(row[n], exact_val[k][n], sval[n])
                    if step == 0:
                        ok_val[k][n] = good
                        if not good:
                            initial_defects.append(dict(observable='interpolant', what=names[n], point=[str(x) for x in p],
                                                        impl=row[n], exact=str(exact_val[k][n])))
                    elif ok_val[k][n] and not good:
                        return initial_defects, dict(step=step, observable='interpolant', what=names[n], point=[str(x) for x in p],
                                                     impl=row[n], exact=str(exact_val[k][n])), int_ok_states
    return initial_defects, None, int_ok_states


def compare_dw(case, r, mr):
    """implementation vs model (sub 0 / sub 1), one leg.  Returns None or dict(step, observable, ...)."""
    if mr is None or sx.is_err(mr) or isinstance(mr, tuple):
        return dict(step=0, observable='model-error', model=str(mr)[:200])
    sint, sval = scales_dw(case, r)
    if case.get('mb'):
        states = mr
    else:
        mhats, states = mr
        if sorted([list(j), list(i)] for j, i in mhats) != sorted([list(j), list(i)] for j, i in r['hats']):
            return dict(step=0, observable='initial-hats', impl=len(r['hats']), model=len(mhats))
        order = {(tuple(j), tuple(i)): n for n, (j, i) in enumerate(mhats)}
        perm = [order[(tuple(j), tuple(i))] for j, i in r['hats']]
    if len(states) != len(r['states']):
        return dict(step=min(len(states), len(r['states'])), observable='number-of-states', impl=len(r['states']), model=len(states))
    for step, (ms, st) in enumerate(zip(states, r['states'])):
        if sx.is_err(ms):
            return dict(step=step, observable='model-rejects-step', model=str(ms))
        integ = st['integral'][1:]
        if case.get('mb'):
            okb, mint = ms           # okb: verified checker lin_mod_okb (side condition of C04_dw_linear_exact_modified_checked)
        else:
            keeps, mint0, mval0 = ms
            mint = [mint0[k] for k in perm]
        for n, mv in enumerate(mint):
            if sx.is_err(mv):
                return dict(step=step, observable='integral', component=n, impl=integ[n], model='compute_weights raises')
            if not close(integ[n], sx.q(mv), sint[n]):
                return dict(step=step, observable='integral', component=n, impl=integ[n], model=str(sx.q(mv)))
        if not case.get('mb') and st['interp'] is not None:
            for k, row in enumerate(mval0):
                for n in range(len(perm)):
                    mv = sx.q(row[perm[n]])
                    if not close(st['interp'][k][1 + n], mv, sval[n]):
                        return dict(step=step, observable='interpolant', component=n, point=[str(x) for x in r['pts'][k]],
                                    impl=st['interp'][k][1 + n], model=str(mv))
    return None


def leg_case(case, r):
    """the case as the model sees one leg: a fresh history with the leg's level range"""
    return dict(case, lmin=r['lmin'], lmax=r['lmax'])


def model_inputs_dw(case, r):
    hist = dw.model_case(leg_case(case, r), r)[1]
    if case.get('mb'):
        return (1, [hist, True, r['fns']])
    return (0, [hist, r['pts']])


DW_BASE = dict(what=0, dim=2, lmin=1, lmax=2, version=6, rebalancing=False, boundary=True, margin=None, safety=0.1,
               a=[0.0, 0.0], b=[1.0, 1.0], steps=0, seed=1, mb=False, npts=6)


def corpus_dw():
    z4 = [[0, 1]] * 4
    z8 = [[0, 1]] * 8
    rot = [[[[0, 1], [0, 1], [0, 1], [1, 1]], z4], [[[0, 1]] * 4 + [[1, 1]], z4], [[[0, 1]] * 5 + [[1, 1]], z4]]
    out = [
        # exemplar of C04-dw-rebalancing-rotation (= C04_dw_rebalancing_refuted): the right-most interval of dimension 0 three times
        dict(DW_BASE, rebalancing=True, bens=rot),
        dict(DW_BASE, rebalancing=False, bens=rot),                                  # same history without rebalancing: holds
        # exemplar of C04-dw-version-2-3 (= C04_dw_version2_refuted): d=2, lmin 2, lmax 3, first interval of dimension 0 once
        dict(DW_BASE, lmin=2, lmax=3, version=2, boundary=False, bens=[[[[1, 1]] + z8[:-1], z8]]),
        dict(DW_BASE, lmin=2, lmax=3, version=3, boundary=False, bens=[[[[1, 1]] + z8[:-1], z8]]),
        dict(DW_BASE, lmin=2, lmax=3, version=6, boundary=False, bens=[[[[1, 1]] + z8[:-1], z8]]),
        dict(DW_BASE, bens=[[z4, z4], [z8, z8]]),                                    # everything refined twice
        dict(DW_BASE, dim=3, a=[0.0, -1.0, 2.0], b=[1.0, 1.0, 2.25], version=7, steps=3, seed=7),
        dict(DW_BASE, lmin=2, lmax=3, version=8, boundary=False, steps=4, seed=11),
        dict(DW_BASE, mb=True, boundary=False, a=[0.5, -3.0], b=[2.0, 6.0], version=6, rebalancing=True, steps=4, seed=5),
        dict(DW_BASE, mb=True, boundary=False, dim=3, a=[0.0, -1.0, 2.0], b=[1.0, 1.0, 2.25], version=2, steps=3, seed=6),
    ]
    # exemplar of C04-dw-version-6-8-3d (= C04_dw_version6_8_3d_refuted): d=3, lmin 1, lmax 4, last interval of every dimension, then of
    # dimensions 1 and 2 again: versions 6 and 8 lose the hat (2,2,2)/(1,1,1), version 7 keeps it
    l16, l17, z17 = [[0, 1]] * 15 + [[1, 1]], [[0, 1]] * 16 + [[1, 1]], [[0, 1]] * 17
    for version in (6, 8, 7):
        out.append(dict(DW_BASE, dim=3, lmin=1, lmax=4, version=version, boundary=False, a=[0.0] * 3, b=[1.0] * 3, npts=1,
                        bens=[[l16, l16, l16], [z17, l17, l17]]))
    # equal start levels lmin = lmax = 2: lmax is raised in one dimension at a time while the other intervals stay at the start level
    f4, z4_, z5 = [[1, 1]] + [[0, 1]] * 3, [[0, 1]] * 4, [[0, 1]] * 5
    for version, bd in [(6, True), (7, False), (8, True)]:
        out.append(dict(DW_BASE, lmin=2, lmax=2, version=version, boundary=bd, bens=[[f4, z4_], [z5, f4], [[[1, 1]] + [[0, 1]] * 4, [[0, 1]] * 5]]))
    # strongly graded trees without rebalancing (large coarsening values: where the subtraction loops of 6/7/8 matter)
    for dim, version, nst, bd in [(2, 6, 4, True), (2, 7, 4, False), (2, 8, 4, True), (3, 6, 3, True), (3, 7, 3, False), (3, 8, 3, True)]:
        bens = [[[[1, 1]] + [[0, 1]] * (3 + k) for _ in range(dim)] for k in range(nst)]
        out.append(dict(DW_BASE, dim=dim, version=version, boundary=bd, a=[0.0] * dim, b=[1.0, 2.0, 0.5][:dim], bens=bens))
    return out


def box_class(a, b):
    w = abs(b - a)
    far = max(abs(a), abs(b)) >= 2 ** 9
    tiny = w <= 2.0 ** -7
    return 'far+tiny' if far and tiny else ('far' if far else ('tiny' if tiny else 'O(1)'))


def count_axes(chk, c, r, prefix):
    """histograms of the lesson axes (a)-(i) as actually drawn"""
    chk.count('%saxis-b:argmode=%s' % (prefix, (r or {}).get('argmode', c.get('argmode', 'same'))))
    chk.count('%saxis-b:points-container=%s' % (prefix, c.get('ptsmode', 'list')))
    chk.count('%saxis-c:returned-arrays-overwritten=%s' % (prefix, bool(c.get('sentinel'))))
    chk.count('%saxis-d:amplitude=2^%d' % (prefix, c.get('amp', 0)))
    for x, y in zip(c['a'], c['b']):
        chk.count('%saxis-d:box=%s' % (prefix, box_class(float(Fraction(x)), float(Fraction(y)))))
    for names in c.get('observers') or []:
        for n in names:
            chk.count('%saxis-e:observer=%s' % (prefix, n))
    for m in c.get('cont') or []:
        chk.count('%saxis-f:continue-call=%s' % (prefix, m))
    chk.count('%saxis-f:runs-on-one-object=%d' % (prefix, 1 + len(c.get('legs') or [])))
    chk.count('%saxis-g:companion=%s' % (prefix, (c.get('companion') or {}).get('strategy', 'none')))
    if c.get('bigpts'):
        chk.count('%saxis-h:interpolation-call-with-%d-points' % (prefix, c['bigpts']))
    chk.count('%saxis-i:dim=%d' % (prefix, c['dim']))
    chk.count('%saxis-i:lmin=%d,lmax-lmin=%d' % (prefix, c['lmin'], c['lmax'] - c['lmin']))
    if prefix == 'dw:' and c['lmin'] == c['lmax']:
        chk.count('dw:axis-i:equal-start-levels:version=%d,rebalancing=%s' % (c['version'], c['rebalancing']))


def side_oracles(chk, strat, c, r, fixed_case, scales=None):
    """axes (a), (c), (e), (g): argument immutability, returned-object aliasing, observer calls, companion instance.
    scales: natural scale of every function component (index 1..) of the reported result"""
    rc = 0
    for name, where, now in r.get('mutated') or []:
        chk.violation('oracle:C04/argument-immutability', 'argument-mutated', dict(strategy=strat, argument=name.split(' (')[0], argmode=r.get('argmode')),
                      fixed_case, dict(argument=name, first_seen_after=where, value_now=now), failing_input=True)
        rc = 1
    for what, where, now in r.get('aliasing') or []:
        chk.violation('oracle:C04/returned-object', 'result-aliases-internal-state', dict(strategy=strat, what=what), fixed_case,
                      dict(overwritten=what, where=where, live_result_now=now), failing_input=True)
        rc = 1
    for note in r.get('observer_notes') or []:
        if note[0] == 'result-after-observers':
            before, after = note[3], note[4]
            # component 0 is the arbitrary refinement-driving function: whether a re-evaluation reproduces its accumulated value is C05's
            # statement, not C04's (it does not for automatic_extend_split); it is only counted here
            if not close(after[0], before[0], max(abs(before[0]), abs(after[0])) * 100):
                chk.count('%s:axis-e:driver-component-changed-by-observers(C05-territory)' % strat)
            bad = [n for n in range(1, len(before)) if not close(after[n], before[n], scales[n - 1] if scales and n - 1 < len(scales) else None)]
            if bad:
                chk.violation('oracle:C04/observer-calls', 'observer-changes-result', dict(strategy=strat), fixed_case,
                              dict(observers=note[1], where=note[2], component=bad[0], before=before[bad[0]], after=after[bad[0]]), failing_input=True)
                rc = 1
        else:
            chk.count('%s:observer-raises:%s:%s' % (strat, note[0], note[1]))
            chk.violation('oracle:C04/observer-calls', 'observer-raises', dict(strategy=strat, observer=note[0], exc=note[1]), fixed_case,
                          dict(note=note), failing_input=True)
            rc = 1
    if r.get('companion_exc'):
        chk.violation('corr:C04/companion', 'impl-exception', dict(strategy='companion:' + (c.get('companion') or {}).get('strategy', '?'),
                                                                   exc=r['companion_exc'][0]), fixed_case, dict(impl=str(r['companion_exc'])), failing_input=True)
        rc = 1
    return rc


def check_dw(chk, cases, verbose=False):
    impl = run_impl(impl_dw, cases, limit=240)
    slow = [i for i, (st, r) in enumerate(impl) if st == 'timeout']
    if slow:
        chk.count('timeouts-retried', len(slow))
        for i, res in zip(slow, run_impl(impl_dw, [cases[i] for i in slow], nproc=4, limit=900)):
            impl[i] = res
    pairs = [(i, k) for i, (st, r) in enumerate(impl) if st == 'ok' for k in range(len(r['legs']))]
    mres = dict(zip(pairs, run_model(PROP, [model_inputs_dw(cases[i], impl[i][1]['legs'][k]) for i, k in pairs], nproc=16)))
    rot = dict(zip(pairs, run_model(PROP, [(3, dw.model_case(leg_case(cases[i], impl[i][1]['legs'][k]), impl[i][1]['legs'][k])[1]) for i, k in pairs], nproc=16)))
    keys, samples = [], []
    rc = 0
    for i, c in enumerate(cases):
        st, res = impl[i]
        chk.count('dw:dim=%d' % c['dim']); chk.count('dw:version=%d' % c['version'])
        chk.count('dw:rebalancing=%s' % c['rebalancing']); chk.count('dw:boundary=%s' % c['boundary'])
        chk.count('dw:modified_basis=%s' % bool(c.get('mb')))
        count_axes(chk, c, res if st == 'ok' else None, 'dw:')
        if st != 'ok':
            chk.violation('corr:C04/dw-history', 'impl-exception', dict(strategy='dw', exc=(res[0] if res else st), where=(res[1] if res else ''),
                                                                        argmode=c.get('argmode'), dim=c['dim']),
                          c, dict(impl=str(res)), failing_input=True)
            rc = 1
            continue
        chk.traces += 1
        legs = res['legs']

        def fixed(upto_leg, upto_step):
            """the replayable case: all legs before upto_leg complete, leg upto_leg cut after upto_step steps"""
            fc = dict(c, pts=jsonable_pts(legs[0]['pts']))
            cut = lambda k: jsonable_bens(legs[k]['bens'] if k < upto_leg else legs[k]['bens'][:upto_step])
            fc['bens'] = cut(0)
            fc['steps'] = len(fc['bens'])
            fc['legs'] = [dict(lg, bens=cut(k + 1), steps=len(cut(k + 1))) for k, lg in enumerate((c.get('legs') or [])[:upto_leg])]
            return fc
        full_case = fixed(len(legs) - 1, 10 ** 6)
        # scales of the union of function components as the worker orders them: hats of all legs (first occurrence), then the linear products
        uni = []
        for lg in legs:
            for h in lg['hats']:
                if h not in uni:
                    uni.append(h)
        rc = max(rc, side_oracles(chk, 'dw', c, res, full_case, scales_dw(c, dict(hats=uni, fns=legs[0]['fns']))[0]))
        done = False
        for k, r in enumerate(legs):
            lc = leg_case(c, r)
            if res.get('allpts') and k == 0:
                r = dict(r, allpts=res['allpts'])
            nst = len(r['states'])
            chk.count('dw:states', nst)
            chk.count('dw:functions_checked', (len(r['hats']) + len(r['fns'])) * nst)
            flags = rot.get((i, k))
            if flags is None or sx.is_err(flags) or isinstance(flags, tuple) or any(sx.is_err(x) for x in flags):
                flags = None

            def rotated(step):
                return None if flags is None or step >= len(flags) else bool(flags[step])
            if flags is not None and c['rebalancing']:
                chk.count('dw:rebalancing-histories-with-rotation' if flags[-1] else 'dw:rebalancing-histories-without-rotation')
            initial_defects, loss, int_ok_states = oracle_dw(lc, r)
            diff = compare_dw(lc, r, mres.get((i, k)))
            mkeeps = None
            if c.get('mb') and diff is None:
                for ms in mres[(i, k)]:
                    chk.count('checker:lin_mod_okb=%s' % bool(ms[0]))
            if not c.get('mb') and diff is None:
                mkeeps = [bool(ms[0]) for ms in mres[(i, k)][1]]
                chk.count('checker:dw_keeps_initial_space evaluations', len(mkeeps))
            if verbose:
                print('run %d on the object (lmin %d, lmax %d): states %d, hats %d, linear products %d, points %d' % (
                    k, r['lmin'], r['lmax'], nst, len(r['hats']), len(r['fns']), len(r['pts'])))
                for step, s_ in enumerate(r['states']):
                    print('  step %d: sizes %s lmax %s components %d rotation-so-far %s checker dw_keeps_initial_space %s' % (
                        step, [len(t) for t in s_['trees']], s_['lmax'], len(s_['scheme']), rotated(step), None if mkeeps is None else mkeeps[step]))
                print('  property predicate:', 'holds' if loss is None and not initial_defects else 'FAILS ' + str(loss or initial_defects[:1]))
                print('  model vs implementation:', 'agree' if diff is None else 'DIFFER ' + str(diff))
            if done:
                continue
            if initial_defects:
                # a function of the initial (lmin,lmax) sparse-grid space (a product of linear functions) is not even treated exactly by the
                # INITIAL configuration of this run: the initial combination / quadrature itself is broken (never on the pinned tree)
                chk.violation('oracle:C04/dw-initial-state', 'dw-initial-state-not-exact',
                              dict(boundary=c['boundary'], mb=bool(c.get('mb')), restart=k > 0, version=c['version']),
                              fixed(k, 0), dict(run_on_object=k, defects=str(initial_defects[:3])), failing_input=True)
                rc = 1
                done = True
            elif loss is not None:
                step = loss['step']
                kind = 'dw-linear-lost' if c.get('mb') else 'dw-initial-hat-lost'
                sig = dict(version=c['version'], rotation_occurred=rotated(step), observable=loss['observable'], dim_ge_3=c['dim'] >= 3)
                chk.violation('oracle:C04/dw-' + loss['observable'], kind, sig, fixed(k, step),
                              dict(loss, run_on_object=k, rebalancing=c['rebalancing'], corr=str(diff)[:300]), failing_input=True)
                chk.count('dw:histories-losing-exactness')
                rc = 1
                done = True
            if diff is not None:
                step = diff['step']
                chk.violation('corr:C04/dw-' + diff['observable'], 'dw-model-differs',
                              dict(observable=diff['observable'], mb=bool(c.get('mb')), restart=k > 0),
                              fixed(k, step), dict(diff, run_on_object=k), failing_input=False)
                rc = 1
                done = True
            elif mkeeps is not None and mkeeps != int_ok_states:
                # verified checker vs oracle: the checker must reject exactly the states in which the implementation lost an integral
                chk.violation('checker:dw_keeps_initial_space', 'dw-checker-disagrees', {}, fixed(k, 10 ** 6),
                              dict(checker_per_state=mkeeps, implementation_integrals_exact_per_state=int_ok_states), failing_input=False)
                rc = 1
        r = legs[0]
        nsplit = sum(len(s) for st_ in r['selected'] for s in st_)
        if len(r['bens']) >= 2 and nsplit >= 2:
            keys.append(('dw', c['dim'], c['lmin'], c['lmax'], c['version'], c['rebalancing'], c['boundary'], bool(c.get('mb')), str(r['selected'])))
            if len(samples) < 2:
                samples.append(dict(case={k: c.get(k) for k in ('dim', 'lmin', 'lmax', 'version', 'rebalancing', 'boundary', 'mb', 'a', 'b', 'amp', 'argmode')},
                                    split_positions_per_step=r['selected'], functions=len(r['hats']) + len(r['fns']),
                                    final_lmax=r['states'][-1]['lmax']))
    return keys, samples, rc


# =============================================================================================== (b) extend-split / cell
ES_DOMAINS = [(0, 1), (-1, 1), (0, 2), (Fraction(1, 2), Fraction(3, 2)), (-2, 1), (Fraction(-1, 4), Fraction(3, 4)), (1, 4), (Fraction(1, 2), 2),
              (2, Fraction(9, 4)), (-3, 5)]


def multilinear_exps(dim):
    return [list(e) for e in itertools.product([0, 1], repeat=dim)]


def moment(a, b, e):
    v = Fraction(1)
    for ad, bd, k in zip(a, b, e):
        v *= (bd ** (k + 1) - ad ** (k + 1)) / (k + 1)
    return v


ES_DOMAINS_X = ES_DOMAINS + [(2 ** 20, 2 ** 20 + 1), (-3 * 2 ** 10, -3 * 2 ** 10 + Fraction(1, 2)), (2 ** 20, 2 ** 20 + Fraction(1, 256)),
                             (0, Fraction(1, 2 ** 30)), (Fraction(1, 2 ** 30), Fraction(1, 2 ** 30) + Fraction(1, 2 ** 40)), (Fraction(-1, 2 ** 20), Fraction(1, 2 ** 20))]


# constructor options of the extend-split scheme: area grid families that integrate multilinear functions exactly (is_high_order_grid() is True
# for the last two: automatic_extend_split then uses the parent estimates / extend_error_correction path)
ES_GRIDS = ['trap', 'trap', 'cc', 'lagrange2']


def make_area_grid(kind, A, B):
    from sparseSpACE import Grid as G
    if kind == 'cc':
        return G.ClenshawCurtisGrid(a=A, b=B, boundary=True)
    if kind == 'lagrange2':
        return G.LagrangeGrid(a=A, b=B, boundary=True, p=2)
    return G.TrapezoidalGrid(a=A, b=B, boundary=True)


def _axes_es(rng, c, nsteps):
    c['amp'] = rng.choice(AMPS)
    c['argmode'] = rng.choice(ARGMODES)
    c['sentinel'] = rng.random() < 0.5
    names = ['num_points', 'get_result', 'final_combi'] if c['strategy'] == 'es' else ['num_points', 'get_result']
    c['observers'] = [([rng.choice(names) for _ in range(rng.randrange(1, 3))] if rng.random() < 0.4 else []) for _ in range(nsteps + 1)]
    c['cont'] = [rng.choice(CONTMODES) for _ in range(nsteps)]
    return c


def gen_case_es(rng, tier, small=False):
    dim = rng.choice([2, 2, 3])
    lmin = rng.choice([1, 1, 2])
    span = rng.choice([1, 1, 2])
    if dim == 3 and lmin == 2:
        span = 1
    steps = rng.randrange(2, 6 if dim == 2 else 5)
    if rng.random() < 0.1:                 # (i) d = 1
        dim, steps = 1, rng.randrange(2, 6)
    if small:
        dim, lmin, span, steps = 2, 1, 1, 2
    dom = [rng.choice(ES_DOMAINS_X) for _ in range(dim)]
    if len(set(dom)) == 1 and dim > 1:     # not cubic
        dom[0] = rng.choice([d for d in ES_DOMAINS if d != dom[1]])
    grid = rng.choice(ES_GRIDS)
    auto = rng.random() < (0.4 if grid == 'trap' else 0.6)
    single = rng.random() < 0.4
    if grid != 'trap' and single and not auto:
        # excluded: split_single_dim without automatic_extend_split on a high-order area grid raises AssertionError in
        # SpatiallyAdaptiveExtendScheme.get_sum_sibling_value on the unchanged code (its own error estimate, before any result is reported)
        auto = True
    c = dict(strategy='es', dim=dim, version=rng.choice([0, 1, 2]), nrbe=rng.choice([0, 1, 2, 3]), auto=auto, grid=grid,
             single=single, lmin=lmin, lmax=lmin + span, steps=steps,
             a=[str(Fraction(d[0])) for d in dom], b=[str(Fraction(d[1])) for d in dom], fn=rng.randrange(3), seed=rng.randrange(1 << 30))
    c = _axes_es(rng, c, steps)
    if grid != 'trap' and c['argmode'] == 'f32':
        c['argmode'] = 'same'       # Clenshaw-Curtis / Lagrange nodes are not float32 numbers: float32 bounds give float32 accuracy (1e-8), not a C04 loss
    return c


def gen_case_cell(rng, tier, small=False):
    dim = rng.choice([2, 2, 3])
    lmin = rng.choice([1, 2]) if dim == 2 else 1
    steps = rng.randrange(2, 5 if dim == 2 else 4)
    if rng.random() < 0.1:                 # (i) d = 1
        dim, lmin = 1, rng.choice([1, 2, 3])
    if small:
        dim, lmin, steps = 2, 1, 2
    dom = [rng.choice(ES_DOMAINS_X) for _ in range(dim)]
    if len(set(dom)) == 1 and dim > 1:
        dom[0] = rng.choice([d for d in ES_DOMAINS if d != dom[1]])
    c = dict(strategy='cell', dim=dim, lmin=lmin, lmax=lmin, steps=steps,
             a=[str(Fraction(d[0])) for d in dom], b=[str(Fraction(d[1])) for d in dom], fn=rng.randrange(3), seed=rng.randrange(1 << 30))
    return _axes_es(rng, c, steps)


def gen_companion(rng, primary='dw'):
    """(g) a second live instance of the same or a sibling strategy class in the same process, advanced between the calls of the primary"""
    k = primary if rng.random() < 0.6 else rng.choice(['dw', 'es', 'cell'])
    c = gen_case_dw(rng, 'quick', small=True) if k == 'dw' else (gen_case_es(rng, 'quick', small=True) if k == 'es' else gen_case_cell(rng, 'quick', small=True))
    c['strategy'] = k
    c['observers'], c['sentinel'] = [], False
    return c


def extra_exps(dim):
    """non-multilinear monomials carried by the cell strategy next to the multilinear ones (model: exact rational surpluses)"""
    out = [[2] + [0] * (dim - 1), [0] * (dim - 1) + [2]]
    if dim >= 2:
        out += [[2, 1] + [0] * (dim - 2), [1] * (dim - 1) + [2]]
    uniq = []
    for e in out:
        if e not in uniq:
            uniq.append(e)
    return uniq


def all_exps(case):
    return multilinear_exps(case['dim']) + (extra_exps(case['dim']) if case['strategy'] == 'cell' else [])


def _make_ml_function(case):
    """component 0: the Genz function of C07 (drives automatic_extend_split); then 2^amp * x^e for every e in {0,1}^d"""
    import numpy as np
    from sparseSpACE.Function import Function
    from . import c07
    f0 = c07._make_function(case)
    exps = all_exps(case)
    E = np.array(exps, dtype=float)
    amp = 2.0 ** case.get('amp', 0)

    class VecF(Function):
        def output_length(self):
            return 1 + len(exps)

        def eval(self, coordinates):
            x = np.asarray(coordinates, dtype=float)
            v0 = np.asarray(f0.eval(tuple(float(t) for t in coordinates)), dtype=float).ravel()[0]
            return np.concatenate(([v0], amp * np.prod(x[None, :] ** E, axis=1)))
    return VecF()


def _scripted(seed, tr):
    from sparseSpACE.ErrorCalculator import ErrorCalculator
    from . import c07

    class Scripted(ErrorCalculator):
        def calc_error(self, f, norm, volume_weights=None):
            k = c07.scripted_benefit(seed, tr['step'], c07._box(f))
            ev = getattr(f, 'evaluations', 0)
            return (k / 8.0) * ev if ev else k / 8.0
    return Scripted()


def steps_es(case):
    """Generator: extend-split / cell strategy step by step (yields after every library call); per state the reported integral and
    (extend-split) the leaf areas with the component grids (coarsened level vector, coefficient) of their local combination"""
    import numpy as np
    from sparseSpACE.GridOperation import Integration
    from sparseSpACE.Grid import TrapezoidalGrid
    from . import c07
    dim = case['dim']
    fcase = dict(case, a=[float(Fraction(x)) for x in case['a']], b=[float(Fraction(x)) for x in case['b']])
    (A, B), (A2, B2), argmode = make_bounds(fcase, case.get('argmode', 'same'))
    ampf = 2.0 ** case.get('amp', 0)
    tr = dict(step=0)
    f = _make_ml_function(case)
    grid = make_area_grid(case.get('grid', 'trap') if case['strategy'] == 'es' else 'trap', A, B)
    op = Integration(f=f, grid=grid, dim=dim, reference_solution=None)
    if case['strategy'] == 'es':
        from sparseSpACE.spatiallyAdaptiveExtendSplit import SpatiallyAdaptiveExtendScheme
        s = SpatiallyAdaptiveExtendScheme(A2, B2, number_of_refinements_before_extend=case['nrbe'], version=case['version'],
                                          automatic_extend_split=case['auto'], split_single_dim=case['single'], operation=op)
    else:
        from sparseSpACE.spatiallyAdaptiveCell import SpatiallyAdaptiveCellScheme
        s = SpatiallyAdaptiveCellScheme(A2, B2, operation=op)
    yield
    ec = _scripted(case['seed'], tr)
    handed = {'a (grid)': A, 'b (grid)': B, 'a (strategy)': A2, 'b (strategy)': B2}
    frozen = {k: _frozen(v) for k, v in handed.items()}
    mutated, aliasing, observer_notes = [], [], []

    def check_args(where):
        for k, v in handed.items():
            if _frozen(v) != frozen[k] and not any(m[0] == k for m in mutated):
                mutated.append([k, where, str(v)[:120]])

    def normalised(v):
        v = np.asarray(v, dtype=float).ravel().copy()
        v[1:] = v[1:] / ampf
        return [float(x) for x in v]

    def observe(res, step):
        st = dict(integral=normalised(res[3]), lmax=[int(x) for x in s.lmax])
        objs = s.refinement.get_objects()
        if case['strategy'] == 'es':
            areas = []
            for o in objs:
                gs = []
                for cg in s.scheme:
                    lc, dc = s.coarsen_grid(cg.levelvector, o)
                    if dc:
                        gs.append([[int(x) for x in lc], int(round(float(cg.coefficient)))])
                bx = c07._box(o)
                areas.append([list(bx[0]), list(bx[1]), gs])
            st['areas'] = areas
            # bookkeeping identity: the reported result is the sum of the values stored on the current areas (catches double counting)
            vals = [np.asarray(o.value, dtype=float).ravel() for o in objs if getattr(o, 'value', None) is not None]
            st['sum_area_values'] = normalised(np.sum(vals, axis=0)) if len(vals) == len(objs) and vals else None
        else:
            st['ncells'] = len(objs)
            st['nactive'] = sum(1 for o in objs if o.active)
            st['cells'] = [[[sx.rat(x) for x in o.start], [sx.rat(x) for x in o.end], [int(x) for x in o.levelvec], bool(o.active)] for o in objs]
            st['dict_size'] = len(s.cell_dict)
        if case.get('sentinel') and isinstance(res[3], np.ndarray) and res[3].flags.writeable:
            res[3][...] = SENTINEL                                  # (c) the returned result array is overwritten
            now = normalised(op.get_result())
            if now != st['integral'] and not aliasing:
                aliasing.append(['reported result', 'step %d' % step, str(now[:3])])
        return st

    def run_observers(names, step):
        before = normalised(op.get_result())
        for name in names:
            try:
                if name == 'num_points':
                    s.get_total_num_points()
                elif name == 'get_result':
                    op.get_result()
                elif name == 'final_combi':
                    s.evaluate_final_combi()
            except Exception as e:
                observer_notes.append([name, type(e).__name__, str(e)[:100], 'step %d' % step])
            check_args('step %d: observer %s' % (step, name))
        after = normalised(op.get_result())
        if after != before:
            observer_notes.append(['result-after-observers', 'observers %s' % names, 'step %d' % step, before, after])

    def cont(mode):
        if mode == 'b':
            return s.continue_adaptive_refinement(tol=-1, max_evaluations=2)
        if mode == 'c':
            return s.continue_adaptive_refinement(tol=-1, max_time=0.0)
        if mode == 'd':
            return s.continue_adaptive_refinement(-1, None, 1)
        if mode == 'e':
            return s.continue_adaptive_refinement(tol=-1, max_evaluations=1, min_evaluations=0)
        return s.continue_adaptive_refinement(tol=-1, max_evaluations=1)

    states, abort, rounds = [], None, []
    try:
        res = s.performSpatiallyAdaptiv(case['lmin'], case['lmax'], ec, tol=-1, max_evaluations=1, do_plot=False, print_output=False)
        check_args('performSpatiallyAdaptiv')
        yield
        states.append(observe(res, 0))
        obs = case.get('observers') or []
        cm = case.get('cont') or []
        for k in range(1, case['steps'] + 1):
            if k - 1 < len(obs) and obs[k - 1]:
                run_observers(obs[k - 1], k - 1)
                yield
            tr['step'] = k
            act0 = [bool(getattr(o, 'active', True)) for o in s.refinement.get_objects()] if case['strategy'] == 'cell' else []
            s.refine()
            if case['strategy'] == 'cell':      # the container positions refined in this round (input of the model)
                objs_now = s.refinement.get_objects()
                rounds.append([i for i, was in enumerate(act0) if was and not objs_now[i].active])
            check_args('step %d: refine' % k)
            yield
            res = cont(cm[k - 1] if k - 1 < len(cm) else 'a')
            check_args('step %d: continue_adaptive_refinement' % k)
            yield
            states.append(observe(res, k))
    except Exception as e:          # the states reached so far are still checked
        import traceback
        where = ''
        for fr in reversed(traceback.extract_tb(e.__traceback__)):
            if 'sparseSpACE' in fr.filename:
                where = '%s:%d' % (fr.filename.rsplit('/', 1)[-1], fr.lineno)
                break
        abort = (type(e).__name__, where, str(e)[:200], tr['step'])
    return dict(states=states, abort=abort, mutated=mutated, aliasing=aliasing, observer_notes=observer_notes, argmode=argmode, rounds=rounds)


def impl_es(case):
    comp = case.get('companion')
    res, comp_exc = _drive(steps_es(case), _steps_of(comp) if comp else None)
    res['companion_exc'] = comp_exc
    return res


ES_CORPUS = [
    dict(strategy='es', dim=2, version=0, nrbe=1, auto=False, single=False, lmin=1, lmax=2, steps=4, a=['0', '-1'], b=['2', '1'], fn=0, seed=11),
    dict(strategy='es', dim=2, version=1, nrbe=0, auto=False, single=True, lmin=1, lmax=3, steps=4, a=['-1', '0'], b=['1', '4'], fn=2, seed=12),
    dict(strategy='es', dim=3, version=2, nrbe=1, auto=False, single=False, lmin=1, lmax=2, steps=3, a=['0', '1/2', '-2'], b=['1', '3/2', '1'], fn=0, seed=13),
    dict(strategy='es', dim=2, version=0, nrbe=2, auto=True, single=False, lmin=1, lmax=3, steps=4, a=['1/2', '0'], b=['2', '1'], fn=0, seed=14),
    dict(strategy='es', dim=2, version=2, nrbe=0, auto=False, single=False, lmin=2, lmax=3, steps=3, a=['-1/4', '1'], b=['3/4', '4'], fn=1, seed=3),
    dict(strategy='es', dim=2, version=1, nrbe=0, auto=False, single=False, lmin=2, lmax=4, steps=3, a=['0', '2'], b=['2', '9/4'], fn=0, seed=5),
    dict(strategy='es', dim=2, version=0, nrbe=1, auto=True, single=False, grid='cc', lmin=1, lmax=2, steps=3, a=['0', '-1'], b=['2', '1'], fn=0, seed=2),
    dict(strategy='es', dim=2, version=1, nrbe=0, auto=True, single=True, grid='lagrange2', lmin=1, lmax=2, steps=3, a=['1/2', '0'], b=['2', '1'], fn=1, seed=2),
    dict(strategy='es', dim=3, version=2, nrbe=1, auto=True, single=False, grid='cc', lmin=1, lmax=2, steps=3, a=['0', '-1', '1/2'], b=['2', '1', '3/2'], fn=0, seed=2),
    dict(strategy='cell', dim=2, lmin=2, lmax=2, steps=4, a=['0', '-1'], b=['2', '1'], fn=0, seed=21),
    dict(strategy='cell', dim=3, lmin=1, lmax=1, steps=3, a=['0', '1/2', '-2'], b=['1', '3/2', '1'], fn=1, seed=22),
]


def check_es(chk, cases, verbose=False):
    impl = run_impl(impl_es, cases, limit=240)
    ck_idx, ck_cases = [], []
    for i, (st, r) in enumerate(impl):
        if st == 'ok' and cases[i]['strategy'] == 'es':
            a = [Fraction(x) for x in cases[i]['a']]
            b = [Fraction(x) for x in cases[i]['b']]
            for k, s_ in enumerate(r['states']):
                ck_idx.append((i, k))
                ck_cases.append((2, [a, b, s_['areas']]))
    ck = dict(zip(ck_idx, run_model(PROP, ck_cases, nproc=16)))
    cell_idx = [i for i, (st, r) in enumerate(impl) if st == 'ok' and cases[i]['strategy'] == 'cell' and r['states']]
    cell_model = dict(zip(cell_idx, run_model(PROP, [(4, [cases[i]['dim'], cases[i]['lmin'], [Fraction(x) for x in cases[i]['a']],
                                                          [Fraction(x) for x in cases[i]['b']],
                                                          impl[i][1]['rounds'][:len(impl[i][1]['states']) - 1], all_exps(cases[i])])
                                                     for i in cell_idx], nproc=16)))
    # verified checker cell_init_okb (hypothesis of C04_cell_multilinear_exact) for every distinct initial configuration of the cell strategy
    cfgs = sorted(set((cases[i]['dim'], cases[i]['lmin'], tuple(cases[i]['a']), tuple(cases[i]['b'])) for i in cell_idx))
    for cfg, ok in zip(cfgs, run_model(PROP, [(5, [d, l, [Fraction(x) for x in a_], [Fraction(x) for x in b_]]) for d, l, a_, b_ in cfgs], nproc=16)):
        chk.count('checker:cell_init_okb evaluations')
        if ok != 1:
            chk.violation('checker:cell_init_okb', 'cell-init-checker-rejects', {}, dict(strategy='cell', dim=cfg[0], lmin=cfg[1], lmax=cfg[1], a=list(cfg[2]),
                                                                                        b=list(cfg[3]), steps=0, fn=0, seed=1),
                          dict(checker=str(ok)), failing_input=False)
    keys, samples = [], []
    rc = 0
    for i, c in enumerate(cases):
        st, r = impl[i]
        strat = c['strategy']
        chk.count('%s:dim=%d' % (strat, c['dim']))
        count_axes(chk, c, r if st == 'ok' else None, strat + ':')
        if strat == 'es':
            chk.count('es:version=%d' % c['version']); chk.count('es:auto=%s' % c['auto']); chk.count('es:single=%s' % c['single'])
        sig0 = dict(strategy=strat, version=c.get('version'), auto=c.get('auto'), single=c.get('single'))
        if strat == 'es':
            chk.count('es:axis-options:grid=%s,auto=%s' % (c.get('grid', 'trap'), c.get('auto')))
        if st != 'ok':
            chk.violation('corr:C04/%s-history' % strat, 'impl-exception', dict(sig0, exc=(r[0] if r else st)), c, dict(impl=str(r)), failing_input=True)
            rc = 1
            continue
        if r['abort']:
            if strat == 'es' and c['auto'] and r['abort'][0] == 'AssertionError':
                chk.count('es:aborted-by-assert-in-automatic-error-estimator')       # not a C04 observable (as in C07)
            else:
                chk.violation('corr:C04/%s-history' % strat, 'impl-exception', dict(sig0, exc=r['abort'][0], where=r['abort'][1]),
                              dict(c, steps=r['abort'][3]), dict(impl=str(r['abort'])), failing_input=True)
                rc = 1
            if not r['states']:
                continue
        chk.traces += 1
        a = [Fraction(x) for x in c['a']]
        b = [Fraction(x) for x in c['b']]
        exps = multilinear_exps(c['dim'])
        exact = [moment(a, b, e) for e in exps]
        scale = []
        for e in all_exps(c):                # natural scale of the moment: prod_d max|x_d|^e_d * (b_d - a_d)
            v = Fraction(1)
            for ad, bd, k in zip(a, b, e):
                v *= (max(abs(ad), abs(bd)) ** k) * (bd - ad)
            scale.append(v)
        rc = max(rc, side_oracles(chk, strat, c, r, c, scale))
        chk.count('%s:states' % strat, len(r['states']))
        done = False
        for k, s_ in enumerate(r['states']):
            integ = s_['integral'][1:]
            bad = [(e, integ[n], ex) for n, (e, ex) in enumerate(zip(exps, exact)) if not close(integ[n], ex, scale[n])]
            line = '  step %d: lmax %s ' % (k, s_['lmax']) + ('areas %d' % len(s_['areas']) if strat == 'es' else 'cells %d (active %d)' % (s_['ncells'], s_['nactive']))
            line += ' | property predicate: ' + ('holds' if not bad else 'FAILS for x^%s: reported %r, exact %s' % (bad[0][0], bad[0][1], bad[0][2]))
            if bad and not done:
                e, iv, ex = bad[0]
                chk.violation('oracle:C04/%s-multilinear' % strat, '%s-multilinear-lost' % strat, dict(sig0, initial=(k == 0)), dict(c, steps=k),
                              dict(step=k, exponent=e, impl=iv, exact=str(ex), all_wrong=str([(x[0], x[1]) for x in bad])[:300]), failing_input=True)
                done = True
                rc = 1
            if strat == 'es' and s_.get('sum_area_values') is not None and not done:
                sv_ = s_['sum_area_values']
                full = s_['integral']
                badn = [n for n in range(len(full)) if not close(sv_[n], full[n], (max(abs(full[0]), abs(sv_[0])) * 100 if n == 0 else scale[n - 1]))]
                chk.count('es:sum-of-area-values identity evaluations')
                if badn:
                    n = badn[0]
                    chk.violation('oracle:C04/es-sum-of-area-values', 'es-result-not-sum-of-area-values', dict(sig0, grid=c.get('grid', 'trap')), dict(c, steps=k),
                                  dict(step=k, component=n, reported=full[n], sum_of_area_values=sv_[n]), failing_input=True)
                    done = True
                    rc = 1
            if strat == 'es':
                m = ck.get((i, k))
                if m is None or sx.is_err(m) or isinstance(m, tuple):
                    line += ' | model rejects the areas: %s' % str(m)[:100]
                    if not done:
                        chk.violation('checker:C04/es-areas', 'es-model-rejects', sig0, dict(c, steps=k), dict(step=k, model=str(m)[:200]), failing_input=False)
                        done = True
                        rc = 1
                else:
                    additive, valid, vals = m
                    chk.count('checker:moments_additive evaluations')
                    chk.count('checker:valid_local_combi evaluations', len(valid))
                    mv = {tuple(e): sx.q(v) for e, v in vals}
                    dm = [(e, integ[n], mv[tuple(e)]) for n, e in enumerate(exps) if not close(integ[n], mv[tuple(e)], scale[n])]
                    line += ' | moments_additive %s, valid_local_combi %s, es_integral %s' % (
                        bool(additive), all(valid), 'agrees' if not dm else 'DIFFERS for x^%s: reported %r, model %s' % dm[0])
                    if not done and (not additive or not all(valid) or dm):
                        what = 'es-areas-moments-not-additive' if not additive else ('es-local-combination-invalid' if not all(valid) else 'es-model-differs')
                        det = dict(step=k, moments_additive=bool(additive), valid_local_combi=[bool(v) for v in valid][:40])
                        if not all(valid):
                            det['area'] = str(s_['areas'][[bool(v) for v in valid].index(False)])[:400]
                        if dm:
                            det['differs'] = str(dm[0])
                        chk.violation('checker:C04/' + what, what, sig0, dict(c, steps=k), det, failing_input=False)
                        done = True
                        rc = 1
            if verbose:
                print(line)
        if strat == 'cell':
            # correspondence with Model/CellScheme.v: container cells (box, level vector, active flag), size of cell_dict, and the integral of
            # every monomial (also the non-multilinear ones, whose hierarchical surpluses do not vanish)
            m = cell_model.get(i)
            xe = all_exps(c)
            cd = None
            if m is None or sx.is_err(m) or isinstance(m, tuple) or len(m) != len(r['states']):
                cd = dict(step=0, observable='model-error', model=str(m)[:200])
            else:
                for k, (ms, s_) in enumerate(zip(m, r['states'])):
                    mcells = [[[sx.q(x) for x in cl[0]], [sx.q(x) for x in cl[1]], cl[2], bool(cl[3])] if not sx.is_err(cl) else 'ERR' for cl in ms[0]]
                    if mcells != s_['cells']:
                        cd = dict(step=k, observable='cells', impl=str([x for x in s_['cells'] if x not in mcells][:3])[:300],
                                  model=str([x for x in mcells if x not in s_['cells']][:3])[:300], n_impl=len(s_['cells']), n_model=len(mcells))
                        break
                    if ms[1] != s_['dict_size']:
                        cd = dict(step=k, observable='cell_dict size', impl=s_['dict_size'], model=ms[1])
                        break
                    integ = s_['integral'][1:]
                    for n, mv in enumerate(ms[2]):
                        if sx.is_err(mv) or not close(integ[n], sx.q(mv), scale[n]):
                            cd = dict(step=k, observable='integral', exponent=xe[n], impl=integ[n], model=str(mv if sx.is_err(mv) else sx.q(mv)))
                            break
                    if cd:
                        break
                    chk.count('cell:model-states-compared')
            if verbose:
                print('  cell model vs implementation:', 'agree' if cd is None else 'DIFFER ' + str(cd))
            if cd is not None:
                chk.violation('corr:C04/cell-' + cd['observable'], 'cell-model-differs', dict(observable=cd['observable']),
                              dict(c, steps=cd['step']), cd, failing_input=False)
                rc = 1
        nst = len(r['states'])
        if nst >= 3 and (strat == 'cell' or len(r['states'][-1]['areas']) > len(r['states'][0]['areas'])):
            keys.append((strat, c['dim'], c.get('version'), c.get('nrbe'), c.get('auto'), c.get('single'), c['lmin'], c['lmax'], c['steps'],
                         tuple(c['a']), tuple(c['b']), c['seed']))
            if sum(1 for s__ in samples if s__['case']['strategy'] == strat) < 1:
                samples.append(dict(case=c, states=nst, final=(len(r['states'][-1]['areas']) if strat == 'es' else r['states'][-1]['ncells']),
                                    final_lmax=r['states'][-1]['lmax']))
    return keys, samples, rc


# =============================================================================================== run / replay
def run(chk):
    # thorough tier: coqchk re-checks the C04-own modules only (the ESExact/C07/C08 closure takes > 30 min and is re-checked by C07/C08)
    chk.coq_obligations(coqchk_own=True)
    n_dw = chk.n(60, 900)
    cases = corpus_dw() + [gen_case_dw(chk.rng, chk.tier) for _ in range(n_dw)] + [gen_case_big(chk.rng) for _ in range(chk.n(2, 12))] + \
        [gen_case_eq(chk.rng) for _ in range(chk.n(16, 250))]
    for c in cases[len(corpus_dw()):]:
        if chk.rng.random() < 0.3:
            c['companion'] = gen_companion(chk.rng, 'dw')
    keys, samples, _ = check_dw(chk, cases)
    chk.record_cases(len(cases), keys,
                     'scripted dimension-wise histories on the real SpatiallyAdaptiveSingleDimensions2 (d 2..4, lmin 1..2, lmax<=3, versions '
                     '2,3,6,7,8, rebalancing on/off, boundary on/off, modified basis, non-cubic domains, <=6 (10) steps) with a vector-valued '
                     'integrand carrying ALL hierarchical hats of the initial sparse-grid space (modified basis: products of linear functions); '
                     'after every step integral and interpolant of every function vs analytic value and vs the Coq model; non-trivial = >=2 steps '
                     'and >=2 splits; distinct by options and split positions', samples)
    es_cases = ES_CORPUS + [gen_case_es(chk.rng, chk.tier) for _ in range(chk.n(60, 1000))] + \
        [gen_case_cell(chk.rng, chk.tier) for _ in range(chk.n(25, 300))]
    for c in es_cases[len(ES_CORPUS):]:
        if chk.rng.random() < 0.3:
            c['companion'] = gen_companion(chk.rng, c['strategy'])
    keys, samples, _ = check_es(chk, es_cases)
    chk.record_cases(len(es_cases), keys,
                     'scripted histories on the real SpatiallyAdaptiveExtendScheme (d 2..3, versions 0..2, number_of_refinements_before_extend 0..3, '
                     'automatic_extend_split on/off, split_single_dim on/off, lmin 1..2, lmax-lmin 1..2, 2..5 refine() rounds) and '
                     'SpatiallyAdaptiveCellScheme (d 2..3, lmin=lmax 1..2, 2..4 rounds) on non-unit, non-cubic domains, TrapezoidalGrid with boundary, '
                     'vector-valued integrand with all monomials x^e, e in {0,1}^d: reported integral vs exact moment after every step; extend-split: '
                     'observed areas + component grids through the verified checkers moments_additive / valid_local_combi and the model value es_integral; '
                     'non-trivial = >=3 states and the number of areas grew; distinct by configuration+seed', samples)


def replay(chk, rep):
    c = rep['case']
    if c.get('strategy', 'dw') == 'dw':
        keys, samples, rc = check_dw(chk, [c], verbose=True)
        for v in chk.violations:
            print(v['check'], v['kind'], v['sig'], str(v['detail'])[:400])
        return rc
    keys, samples, rc = check_es(chk, [c], verbose=True)
    for v in chk.violations:
        print(v['check'], v['kind'], v['sig'], str(v['detail'])[:400])
    return rc
