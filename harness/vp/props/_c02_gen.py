"""C02: source-derived model of TrapezoidalGrid1D (DESIGN.md 0.5.1 scheme).  coq/Gen/TrapGrid1DGen.v is regenerated from the
working tree ($VERIF_REPO) by harness/translate/py2gallina_c02.py (a front end of the shared translator, which is imported,
not modified) under the build lock, before the proof obligations are (re)built; Props/C02gen.v holds the equivalence theorems."""
import fcntl
import hashlib
import os
import re
import subprocess
import sys
from ..core import ROOT, COQ
from .. import gen

TRANSLATOR = os.path.join(ROOT, 'harness', 'translate', 'py2gallina_c02.py')
GEN_FILE = 'TrapGrid1DGen.v'
GEN_CHAIN = ['Base/PyNumMath.v', 'Gen/TrapGrid1DGen.v', 'Proofs/GenTrapGrid1DEq.v', 'Props/C02gen.v']
EXTRA_PROPS = ('C02gen',)
ASSUMPTION = gen.ASSUMPTION + ('; C02 front end: unannotated parameters `level`, `index` of TrapezoidalGrid1D declared int, '
                               'math.isclose read as |x-y| <= 1e-9*max(|x|,|y|) on exact rationals (coq/Base/PyNumMath.v); the attribute values '
                               'set by Grid1d.set_current_area (not translatable: attribute writes) are transcribed in Model/TrapGrid1DArea.v '
                               'and compared with the implementation objects on every run')


def regenerate(chk):
    with open(os.path.join(ROOT, '.buildlock'), 'w') as lk:
        fcntl.flock(lk, fcntl.LOCK_EX)
        p = subprocess.run([sys.executable, TRANSLATOR], capture_output=True, text=True)
    msg = '\n'.join(l for l in p.stderr.splitlines() if 'conda' not in l).strip()
    chk.checker_cmds.append('/venv/bin/python harness/translate/py2gallina_c02.py  (regenerates coq/Gen/%s from sparseSpACE/Grid.py)' % GEN_FILE)
    info = dict(rc=p.returncode, message=msg, target='trap1d')
    try:
        src = open(os.path.join(COQ, 'Gen', GEN_FILE)).read()
        info['generated_sha256'] = hashlib.sha256(src.encode()).hexdigest()
        info['translated'] = re.findall(r'^\(\* (\S+:\d+-\d+)  (\S+) \*\)$', src, re.M)
    except OSError:
        pass
    chk.extra['source_derived_model'] = info
    return info


def diagnose(chk, info):
    """after coq_obligations: None when the generated model is in place and proved equivalent, else the reason"""
    problem = gen.gen_diagnosis(chk, info, GEN_CHAIN)
    gen.report(chk, info, problem, 'C02_gen_*')
    return problem


def finish(chk, info, problem):
    gen.finish_gen(chk, info, problem)
