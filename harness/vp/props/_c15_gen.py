"""C15: source-derived model of GlobalTrapezoidalGridWeighted.compute_weights / compute_1D_quad_weights (DESIGN.md 0.5.1 scheme).
coq/Gen/UQGridGen.v is regenerated from the working tree ($VERIF_REPO) by harness/translate/py2gallina_c15.py (a front end of the shared
translator, which is imported, not modified) under the build lock, before the proof obligations are (re)built; Props/C15gen.v holds the
statements proved for all inputs; the extracted generated function (ocaml/driver_C15gen, Entry/C15gen.v) is compared with the extracted hand
model (Model/UQ.wtrap) on every weights case of the run, exactly (same rational inputs)."""
import fcntl
import hashlib
import os
import re
import subprocess
import sys
from concurrent.futures import ThreadPoolExecutor
from ..core import ROOT, COQ
from .. import gen, sx

TRANSLATOR = os.path.join(ROOT, 'harness', 'translate', 'py2gallina_c15.py')
GEN_FILE = 'UQGridGen.v'
GEN_CHAIN = ['Base/PyNumUQ.v', 'Proofs/GenUQGridLoop.v', 'Gen/UQGridGen.v', 'Proofs/GenUQGridEq.v', 'Props/C15gen.v', 'Entry/C15gen.v']
EXTRA_PROPS = ('C15gen',)
INF = 2 ** 1024
ASSUMPTION = gen.ASSUMPTION + ('; C15 front end (py2gallina_c15.py): the distribution object enters the translated compute_weights through the two lists '
                               'of its interval moments (rule D1: distribution.get_zeroth_moment(x1, x2) / get_first_moment(x1, x2) inside the '
                               'interval loop -> distribution_moment_0[i] / _1[i]; in compute_1D_quad_weights self.distributions[d] -> the moment '
                               'lists of dimension d, rule D2), math.isinf read as 2^1024 <= |x| with +-inf read as +-2^1024 (coq/Base/PyNumUQ.v), '
                               'math.isclose as in the C08 front end, normalisations N1-N8 (continue, slice assignment, negative index, array / '
                               'scalar, print-only else branch, assert messages, if-chains assigning one name, list-literal returns); the equality '
                               'generated = hand model (Model/UQ.wtrap) is PROVED for all n (Props/C15gen.v: C15gen_compute_weights_eq, '
                               '_modified_eq; precondition: neighbouring finite points differ) and additionally compared per case on every run')


def regenerate(chk):
    with open(os.path.join(ROOT, '.buildlock'), 'w') as lk:
        fcntl.flock(lk, fcntl.LOCK_EX)
        p = subprocess.run([sys.executable, TRANSLATOR], capture_output=True, text=True)
    msg = '\n'.join(l for l in p.stderr.splitlines() if 'conda' not in l).strip()
    chk.checker_cmds.append('/venv/bin/python harness/translate/py2gallina_c15.py  (regenerates coq/Gen/%s from sparseSpACE/Grid.py)' % GEN_FILE)
    info = dict(rc=p.returncode, message=msg, target='uqgrid')
    try:
        src = open(os.path.join(COQ, 'Gen', GEN_FILE)).read()
        info['generated_sha256'] = hashlib.sha256(src.encode()).hexdigest()
        info['translated'] = re.findall(r'^\(\* (\S+:\d+-\d+)  (\S+) \*\)$', src, re.M)
    except OSError:
        pass
    chk.extra['source_derived_model'] = info
    return info


def diagnose(chk, info):
    problem = gen.gen_diagnosis(chk, info, GEN_CHAIN)
    gen.report(chk, info, problem, 'C15gen_*')
    return problem


def finish(chk, info, problem):
    gen.finish_gen(chk, info, problem)


def _chunk(args):
    driver, lines = args
    p = subprocess.run(['bash', '-c', 'ulimit -s unlimited 2>/dev/null; exec "%s"' % driver], input='\n'.join(lines) + '\n',
                       capture_output=True, text=True)
    if p.returncode != 0:
        raise RuntimeError('generated-model driver failed: rc=%s %s' % (p.returncode, p.stderr[-2000:]))
    return p.stdout.splitlines()


def run_gen(cases, nproc=8):
    """cases: list of (sub, value) for ocaml/driver_C15gen (extracted entry_C15gen). Same wire format as vp.model.run_model."""
    driver = os.path.join(ROOT, 'ocaml', 'driver_C15gen')
    if not os.path.exists(driver):
        return None
    lines = ['%d %s %s %s' % (i, sx.enc(15), sx.enc(sub), sx.enc(val)) for i, (sub, val) in enumerate(cases)]
    if not lines:
        return []
    nproc = max(1, min(nproc, len(lines) // 8 + 1))
    with ThreadPoolExecutor(nproc) as ex:
        outs = list(ex.map(_chunk, [(driver, lines[i::nproc]) for i in range(nproc)]))
    res = [None] * len(lines)
    for out in outs:
        for ln in out:
            i, _, rest = ln.partition(' ')
            res[int(i)] = ('!', rest) if rest.startswith('!') else sx.dec(rest)
    return res
