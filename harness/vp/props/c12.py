"""C12: Function evaluation is cache-transparent and matches its analytic integral.

Correspondence model <-> sparseSpACE/Function.py:
  (a) cache machine: random op sequences (single / batch / empty batch / direct eval_vectorized / repeated points /
      reset / deactivate / size) on every built-in class; the model's `eval` is the table of the implementation's own
      direct `eval` values; compared: exception-or-values, shapes, counter, dictionary contents.
  (b) analytic integrals: every class offering one, random dyadic boxes; compared with tensor Gauss-Legendre
      quadrature (scipy nodes) of the point evaluation; the polynomial family additionally exactly against the
      Coq model (faithful integral, fixed integral, formal polynomial integral) and its point values.
The oracle (property predicate on the implementation alone) is evaluated on every case."""
import itertools
import math
from fractions import Fraction
from .. import sx
from ..impl import run_impl
from ..model import run_model

ASSUMPTIONS = [
    'C12_polynomial1d_integral_is_riemann (only) uses the real-number axioms of the Coq standard library (ClassicalDedekindReals.sig_not_dec, sig_forall_dec, FunctionalExtensionality.functional_extensionality_dep, Classical_Prop.classic) through Coquelicot; every other theorem is closed under the global context',
    'the abstract method eval is a pure function of the point (modelled as a Section variable; instantiated at run time by the table of the implementation\'s own direct eval values)',
    'Python dict keyed by float tuples modelled as association list keyed by exact rationals (0.0 == -0.0, 1 == 1.0 in both)',
    'counter clause checked while caching is on (after deactivate_caching the dictionary content is not compared: the property does not fix it)',
    'analytic integrals of transcendental classes (Genz family, ExpVar, G, DiagonalDiscont, UQ, Shift, Lambda, base-class quadrature) are cross-checked numerically only (test, not proof); tolerance 1e-8 relative (1e-6 for scipy-quadrature-based, 2e-2 for the discontinuous simplex indicator)',
    'FunctionUQNormal/FunctionUQNormal2 integrals are weighted integrals (not the integral of eval) and are outside the clause; FunctionGeneralizedNormal is excluded by the property (source marks it incorrect)',
    'zero coefficients are excluded for classes that divide by them without handling (GenzCornerPeak, GenzDiscontinious, GenzC0, GenzGaussian); GenzProductPeak needs float coefficients (integer arrays raise on ** -2)',
]

RTOL = 1e-12
ATOL = 1e-13
INT_RTOL = 1e-8
EXC_OF_ERR = {1: ('UnboundLocalError',), 2: ('IndexError',), 3: ('AssertionError', 'ValueError')}

# ------------------------------------------------------------------------------------------------ function registry
# named callables used inside wrapper classes (cases stay JSON-serialisable)
LAMBDAS = {
    'p2a': lambda x: x[0] ** 2 + 3.0 * x[-1],
    'p2b': lambda x: 2.0 * x[0] * x[-1] - x[0],
    'p3': lambda x: x[0] ** 2 * x[1] + 3.0 * x[1] * x[-1],
    'vec2': lambda x: [x[0] + x[-1], 2.0 * x[0]],
    'vec3': lambda x: [x[0], x[-1] ** 2, 1.0],
    'sq1d': lambda x: 3.0 * x[0] ** 2, 'sq1d_anti': lambda x: x[0] ** 3,
    'lin1d': lambda x: 2.0 * x[0] - 1.0, 'lin1d_anti': lambda x: x[0] ** 2 - x[0],
    'poly_sum': lambda *c: 1.0 + sum(c), 'poly_first': lambda *c: c[0] * 2.0 - 0.5,
}


class _Ppf:
    def __init__(self, lo, hi):
        self.lo, self.hi = lo, hi

    def ppf(self, u):
        return self.lo + (self.hi - self.lo) * u


def build(spec):
    """spec = {'cls': name, 'p': {...}} -> instance of the implementation's class."""
    import numpy as np
    import sparseSpACE.Function as F
    c, p = spec['cls'], spec.get('p', {})
    sub = lambda k: build(p[k])
    if c == 'ConstantValue': return F.ConstantValue(p['value'])
    if c == 'FunctionDiagonalDiscont': return F.FunctionDiagonalDiscont()
    if c == 'FunctionShift':
        s = list(p['shift'])
        return F.FunctionShift(sub('f'), lambda cs: [x + s[i] for i, x in enumerate(cs)])
    if c == 'FunctionUQNormal': return F.FunctionUQNormal(sub('f'), p['mean'], p['std'], p['a'], p['b'])
    if c == 'FunctionUQNormal2': return F.FunctionUQNormal2(sub('f'), p['mean'], p['std'], p['a'], p['b'])
    if c == 'FunctionUQWeighted': return F.FunctionUQWeighted(sub('f'), sub('w'))
    if c == 'FunctionCantileverBeamD': return F.FunctionCantileverBeamD()
    if c == 'CustomFunction': return F.CustomFunction(LAMBDAS[p['fn']], output_length=p['olen'])
    if c == 'FunctionG': return F.FunctionG(p['dim'])
    if c == 'FunctionGShifted': return F.FunctionGShifted(p['dim'])
    if c == 'FunctionUQ': return F.FunctionUQ()
    if c == 'FunctionUQShifted': return F.FunctionUQShifted()
    if c == 'FunctionUQ2': return F.FunctionUQ2()
    if c == 'FunctionCompose': return F.FunctionCompose([(build(s), w) for s, w in p['fs']])
    if c == 'FunctionLinear': return F.FunctionLinear(p['coeffs'])
    if c == 'FunctionMultilinear': return F.FunctionMultilinear(p['coeffs'])
    if c == 'FunctionPower': return F.FunctionPower(sub('f'), p['exponent'])
    if c == 'FunctionPolysPCE': return F.FunctionPolysPCE(sub('f'), [LAMBDAS[n] for n in p['polys']], p['norms'])
    if c == 'FunctionInverseTransform':
        return F.FunctionInverseTransform(sub('f'), [_Ppf(lo, hi) for lo, hi in p['ranges']])
    if c == 'FunctionCustom':
        fn = [LAMBDAS[n] for n in p['fns']] if 'fns' in p else LAMBDAS[p['fn']]
        return F.FunctionCustom(fn, output_dim=p.get('odim'))
    if c == 'FunctionConcatenate': return F.FunctionConcatenate([build(s) for s in p['fs']])
    if c == 'FunctionPolynomial': return F.FunctionPolynomial(p['coeffs'], degree=p['degree'])
    if c == 'LambdaFunction': return F.LambdaFunction(LAMBDAS[p['fn']], LAMBDAS[p['fn'] + '_anti'])
    if c == 'Polynomial1d': return F.Polynomial1d(p['coeffs'])
    if c == 'GenzCornerPeak': return F.GenzCornerPeak(p['coeffs'])
    if c == 'GenzProductPeak': return F.GenzProductPeak(p['coeffs'], p['mid'])
    if c == 'GenzOszillatory': return F.GenzOszillatory(p['coeffs'], p['offset'])
    if c == 'GenzDiscontinious': return F.GenzDiscontinious(p['coeffs'], p['border'])
    if c == 'GenzDiscontinious2': return F.GenzDiscontinious2(p['coeffs'], p['border'])
    if c == 'GenzC0': return F.GenzC0(p['coeffs'], p['mid'])
    if c == 'GenzGaussian': return F.GenzGaussian(p['mid'], p['coeffs'])
    if c == 'FunctionExpVar': return F.FunctionExpVar()
    if c == 'FunctionGeneralizedNormal': return F.FunctionGeneralizedNormal(p['mid'], p['coeffs'], p['exp'])
    raise KeyError(c)


# ------------------------------------------------------------------------------------------------ generators
def dy(rng, lo, hi, bits=3):
    return rng.randrange(int(lo * 2 ** bits), int(hi * 2 ** bits) + 1) / 2 ** bits


def nz(rng, pos=False):
    v = rng.choice([0.5, 1.0, 1.5, 2.0, 3.0, 0.25])
    return v if pos or rng.random() < 0.6 else -v


def gen_fn(rng, d, cls=None, for_integral=False, depth=0):
    """Random instance spec in dimension d. Returns (spec, domain) with domain = (lo, hi) for point coordinates."""
    simple = ['ConstantValue', 'FunctionDiagonalDiscont', 'FunctionG', 'FunctionGShifted', 'FunctionLinear',
              'FunctionMultilinear', 'FunctionPolynomial', 'GenzCornerPeak', 'GenzProductPeak', 'GenzOszillatory',
              'GenzDiscontinious', 'GenzC0', 'GenzGaussian', 'FunctionExpVar', 'FunctionGeneralizedNormal',
              'CustomFunction', 'FunctionCustom']
    wrappers = ['FunctionShift', 'FunctionUQNormal', 'FunctionUQNormal2', 'FunctionUQWeighted', 'FunctionCompose',
                'FunctionPower', 'FunctionPolysPCE', 'FunctionInverseTransform', 'FunctionConcatenate']
    special = {1: ['Polynomial1d', 'LambdaFunction'], 2: ['FunctionUQ2'], 3: ['FunctionUQ', 'FunctionUQShifted']}
    if cls is None:
        pool = simple + special.get(d, []) * 2 + (wrappers if depth == 0 else [])
        cls = rng.choice(pool)
    co = [nz(rng) for _ in range(d)]
    pos = [abs(c) for c in co]
    mid = [dy(rng, 0, 1) for _ in range(d)]
    dom = (0.0, 1.0)
    p = {}
    if cls == 'ConstantValue':
        p = {'value': rng.choice([0.0, 1.0, 2.5, -3.0, 3, 0.125])}
    elif cls in ('FunctionG', 'FunctionGShifted'):
        p = {'dim': d}
    elif cls in ('FunctionLinear', 'FunctionMultilinear', 'GenzCornerPeak'):
        if cls == 'GenzCornerPeak':
            p = {'coeffs': pos}
        else:
            p = {'coeffs': [c if rng.random() < 0.9 else 0.0 for c in co]}
            dom = (-1.0, 2.0)
    elif cls == 'FunctionPolynomial':
        p = {'coeffs': co, 'degree': rng.choice([0, 1, 2, 2, 3])}
        dom = (-1.0, 2.0)
    elif cls == 'Polynomial1d':
        p = {'coeffs': [rng.choice([0.0, 1.0, -2.0, 0.5, 3.0]) for _ in range(rng.randrange(0, 6))]}
        dom = (-1.0, 2.0)
    elif cls == 'LambdaFunction':
        p = {'fn': rng.choice(['sq1d', 'lin1d'])}
        dom = (-1.0, 2.0)
    elif cls in ('GenzProductPeak', 'GenzC0'):
        p = {'coeffs': pos if cls == 'GenzProductPeak' or rng.random() < 0.7 else co, 'mid': mid}
    elif cls == 'GenzOszillatory':
        r = rng.random()
        cc = co if r < 0.6 else ([0.0] * d if r < 0.75 else [c if rng.random() < 0.5 else 0.0 for c in co])
        p = {'coeffs': cc, 'offset': dy(rng, 0, 1)}
        dom = (-1.0, 2.0)
    elif cls in ('GenzDiscontinious', 'GenzDiscontinious2'):
        p = {'coeffs': co, 'border': mid}
    elif cls == 'GenzGaussian':
        p = {'coeffs': pos, 'mid': mid}
        dom = (-1.0, 2.0)
    elif cls == 'FunctionGeneralizedNormal':
        p = {'coeffs': pos, 'mid': mid, 'exp': 1}
    elif cls == 'CustomFunction':
        fn = rng.choice(['p2a', 'p2b', 'vec2', 'vec3'] + (['p3'] if d >= 2 else []))
        p = {'fn': fn, 'olen': {'vec2': 2, 'vec3': 3}.get(fn, 1)}
        dom = (-1.0, 2.0)
    elif cls == 'FunctionCustom':
        if for_integral or rng.random() < 0.5:
            p = {'fn': rng.choice(['p2a', 'p2b'] + (['p3'] if d >= 2 else []))}
        else:
            p = {'fns': rng.sample(['p2a', 'p2b', 'sq1d', 'lin1d'], rng.randrange(1, 4))}
        dom = (-1.0, 2.0)
    elif cls == 'FunctionShift':
        inner, _ = gen_fn(rng, d, rng.choice(['FunctionLinear', 'GenzGaussian', 'FunctionPolynomial']), depth=1)
        p = {'f': inner, 'shift': [dy(rng, -1, 1) for _ in range(d)]}
    elif cls in ('FunctionUQNormal', 'FunctionUQNormal2'):
        inner, _ = gen_fn(rng, d, rng.choice(['FunctionLinear', 'GenzGaussian', 'FunctionMultilinear']), depth=1)
        p = {'f': inner, 'mean': [dy(rng, -1, 1) for _ in range(d)], 'std': [rng.choice([0.5, 1.0, 2.0]) for _ in range(d)],
             'a': [-1.0] * d, 'b': [1.0] * d}
    elif cls == 'FunctionUQWeighted':
        inner, _ = gen_fn(rng, d, rng.choice(['FunctionLinear', 'GenzGaussian']), depth=1)
        w, _ = gen_fn(rng, d, rng.choice(['FunctionMultilinear', 'GenzC0']), depth=1)
        p = {'f': inner, 'w': w}
    elif cls == 'FunctionCompose':
        fs = []
        for _ in range(rng.randrange(1, 4)):
            inner, _ = gen_fn(rng, d, rng.choice(['FunctionLinear', 'GenzGaussian', 'FunctionPolynomial', 'FunctionMultilinear',
                                                  'GenzOszillatory', 'ConstantValue'] if not for_integral else
                                                 ['FunctionLinear', 'GenzGaussian', 'FunctionPolynomial', 'GenzC0']), depth=1)
            fs.append([inner, rng.choice([1.0, -0.5, 2.0, 0.25])])
        p = {'fs': fs}
    elif cls == 'FunctionPower':
        inner, _ = gen_fn(rng, d, rng.choice(['FunctionLinear', 'GenzGaussian', 'CustomFunction']), depth=1)
        p = {'f': inner, 'exponent': rng.choice([1, 2, 3])}
    elif cls == 'FunctionPolysPCE':
        inner, _ = gen_fn(rng, d, rng.choice(['FunctionLinear', 'CustomFunction']), depth=1)
        k = rng.randrange(1, 3)
        p = {'f': inner, 'polys': [rng.choice(['poly_sum', 'poly_first']) for _ in range(k)],
             'norms': [rng.choice([1.0, 2.0, 0.5]) for _ in range(k)]}
    elif cls == 'FunctionInverseTransform':
        inner, _ = gen_fn(rng, d, rng.choice(['FunctionLinear', 'GenzGaussian', 'CustomFunction']), depth=1)
        p = {'f': inner, 'ranges': [[dy(rng, -2, 0), dy(rng, 1, 2)] for _ in range(d)]}
    elif cls == 'FunctionConcatenate':
        fs = [gen_fn(rng, d, rng.choice(['FunctionLinear', 'GenzGaussian', 'CustomFunction', 'ConstantValue']), depth=1)[0]
              for _ in range(rng.randrange(1, 4))]
        p = {'fs': fs}
    elif cls in ('FunctionUQ', 'FunctionUQShifted', 'FunctionUQ2'):
        dom = (-1.0, 1.0)
    return {'cls': cls, 'p': p}, dom


def gen_cache_case(rng, cls=None):
    d = rng.choice([1, 2, 2, 3])
    if cls in ('FunctionUQ', 'FunctionUQShifted', 'FunctionCantileverBeamD'):
        d = 3
    if cls == 'FunctionUQ2':
        d = 2
    if cls in ('Polynomial1d', 'LambdaFunction'):
        d = 1
    fn, dom = gen_fn(rng, d, cls)
    if fn['cls'] == 'FunctionCantileverBeamD':
        dom = (1.0, 2.0)
    npool = rng.choice([1, 2, 3, 5, 8])
    pool = [[dy(rng, dom[0], dom[1]) for _ in range(d)] for _ in range(npool)]
    if rng.random() < 0.3 and dom[0] <= 0.0:
        pool.append([0.0] * d)
        pool.append([-0.0] * d)            # the same dictionary key as 0.0
    pt = lambda: list(rng.choice(pool))
    nops = rng.randrange(1, 31)
    deact_at = rng.randrange(nops) if rng.random() < 0.3 else None
    ops = []
    for i in range(nops):
        if i == deact_at:
            ops.append(['deact'])
            continue
        r = rng.random()
        form = rng.choice(['tuple', 'tuple', 'list', 'ndarray'])
        if r < 0.34:
            ops.append(['single', pt(), form])
        elif r < 0.60:
            ops.append(['batch', [pt() for _ in range(rng.randrange(1, 6))], form])
        elif r < 0.66:
            ops.append(['batch', [], rng.choice(['list', 'ndarray'])])
        elif r < 0.76:
            ops.append(['vec', [pt() for _ in range(rng.randrange(0, 5))]])
        elif r < 0.86:
            ops.append(['reset'])
        else:
            ops.append(['size'])
    return {'kind': 'cache', 'fn': fn, 'dim': d, 'ops': ops}


SCALAR_RETURNING = ['FunctionLinear', 'FunctionMultilinear', 'FunctionPolynomial', 'GenzCornerPeak', 'GenzGaussian', 'ConstantValue',
                    'GenzC0', 'FunctionExpVar', 'FunctionG', 'GenzOszillatory', 'GenzProductPeak', 'GenzDiscontinious']
LIST_RETURNING = ['CustomFunction', 'FunctionCustom', 'FunctionPower', 'FunctionPolysPCE', 'FunctionConcatenate', 'FunctionDiagonalDiscont']
PATTERNS = ['singles-then-batch', 'batch-rest-singles-then-all', 'repeated-batches', 'batch-after-reset', 'batch-then-singles',
            'singles-twice-then-batch-twice']


def gen_structured_case(rng, pattern=None, cls=None):
    """Short histories ON ONE OBJECT that mix cache entries written by the single path (raw eval result: bare scalar or list)
    and by the batch path (array rows), then read them back through the other path."""
    pattern = pattern or rng.choice(PATTERNS)
    cls = cls or rng.choice(SCALAR_RETURNING + LIST_RETURNING)
    d = rng.choice([1, 2, 2, 3])
    fn, dom = gen_fn(rng, d, cls)
    k = rng.randrange(1, 5)
    pts = []
    while len(pts) < k:
        p = [dy(rng, dom[0], dom[1]) for _ in range(d)]
        if p not in pts:
            pts.append(p)
    f1 = rng.choice(['tuple', 'tuple', 'list', 'ndarray'])
    f2 = rng.choice(['tuple', 'tuple', 'list', 'ndarray'])
    S = lambda p: ['single', list(p), f1]
    B = lambda ps: ['batch', [list(p) for p in ps], f2]
    if pattern == 'singles-then-batch':
        ops = [S(p) for p in pts] + [['size'], B(pts), ['size'], B(list(reversed(pts)))]
    elif pattern == 'batch-rest-singles-then-all':
        h = rng.randrange(0, k + 1)
        ops = ([B(pts[:h])] if h else []) + [S(p) for p in pts[h:]] + [['size'], B(pts), B(pts), ['size']]
    elif pattern == 'repeated-batches':
        ops = [B(pts), B(pts), ['size'], B(pts + pts[:1]), ['size']]
    elif pattern == 'batch-after-reset':
        ops = [B(pts), S(pts[0]), ['reset'], ['size'], B(pts), ['size'], ['reset'], S(pts[-1]), B(pts), ['size']]
    elif pattern == 'batch-then-singles':
        ops = [B(pts)] + [S(p) for p in pts] + [['size'], B(pts[:1]), S(pts[0])]
    else:
        ops = [S(p) for p in pts] + [S(p) for p in pts] + [B(pts), B(pts), ['size'], ['vec', [list(p) for p in pts]], B(pts)]
    if rng.random() < 0.15:
        ops.insert(rng.randrange(len(ops)), ['deact'])
    return {'kind': 'cache', 'fn': fn, 'dim': d, 'ops': ops, 'pattern': pattern}


INTEGRAL_CLASSES = ['ConstantValue', 'FunctionDiagonalDiscont', 'FunctionG', 'FunctionGShifted', 'FunctionLinear',
                    'FunctionMultilinear', 'FunctionPolynomial', 'Polynomial1d', 'LambdaFunction', 'GenzCornerPeak',
                    'GenzProductPeak', 'GenzOszillatory', 'GenzDiscontinious', 'GenzDiscontinious2', 'GenzC0',
                    'GenzGaussian', 'FunctionExpVar', 'FunctionShift', 'FunctionCompose', 'FunctionCustom',
                    'FunctionUQ2', 'FunctionUQ', 'FunctionUQShifted']
POLY_CLASSES = ('ConstantValue', 'FunctionLinear', 'FunctionMultilinear', 'FunctionPolynomial', 'Polynomial1d')
UNIT_CUBE_ONLY = ('FunctionDiagonalDiscont', 'FunctionG', 'FunctionGShifted')
SCIPY_QUAD = ('FunctionCustom', 'FunctionUQ2', 'FunctionUQ', 'FunctionUQShifted')
JUMP_QUAD = ('FunctionUQ2', 'FunctionUQ', 'FunctionUQShifted')   # library value = scipy adaptive quadrature ACROSS a jump


def gen_box(rng, d, lo, hi):
    a, b = [], []
    for _ in range(d):
        x, y = dy(rng, lo, hi), dy(rng, lo, hi)
        while x == y:
            y = dy(rng, lo, hi)
        a.append(min(x, y)); b.append(max(x, y))
    return [a, b]


def gen_integral_case(rng, cls=None):
    cls = cls or rng.choice(INTEGRAL_CLASSES)
    d = rng.choice([1, 2, 2, 2, 3])
    if cls in ('Polynomial1d', 'LambdaFunction'):
        d = 1
    if cls == 'FunctionUQ2':
        d = 2
    if cls in ('FunctionUQ', 'FunctionUQShifted'):
        d = 3
    if cls == 'FunctionCustom':
        d = rng.choice([2, 2, 3])                       # the base-class quadrature exists for 2 and 3 dimensions only
    if d == 3 and cls not in POLY_CLASSES + ('FunctionUQ', 'FunctionUQShifted', 'FunctionCustom', 'FunctionExpVar',
                                             'FunctionDiagonalDiscont', 'FunctionG') and rng.random() < 0.6:
        d = 2
    fn, dom = gen_fn(rng, d, cls, for_integral=True)
    if cls in UNIT_CUBE_ONLY:
        boxes = [[[0.0] * d, [1.0] * d]]
    else:
        lo, hi = dom
        if cls == 'FunctionShift':
            lo, hi = 0.0, 1.0
        boxes = [gen_box(rng, d, lo, hi) for _ in range(2 if d < 3 else 1)]
        if rng.random() < 0.3:
            boxes.append([[0.0] * d, [1.0] * d])
    if cls == 'FunctionExpVar' and d == 3:
        # the root singularity at 0 needs geometric refinement, unaffordable for a 3-d tensor rule
        boxes = [[[max(x, 0.125) for x in a], [max(y, 0.25) for y in b]] for a, b in boxes]
        boxes = [[a, [y if y > x else x + 0.125 for x, y in zip(a, b)]] for a, b in boxes]
    pts = [[dy(rng, dom[0], dom[1]) for _ in range(d)] for _ in range(3)]
    return {'kind': 'integral', 'fn': fn, 'dim': d, 'boxes': boxes, 'points': pts}


# ------------------------------------------------------------------------------------------------ implementation workers
def _norm_value(v):
    """What __call__ does with a raw eval result: scalar -> [v]; sequence -> list of floats."""
    import numpy as np
    if np.isscalar(v):
        return [float(v)]
    return [float(x) for x in np.asarray(v).ravel()]


def _as_form(np, pts, form, d, single):
    if single:
        return tuple(pts) if form == 'tuple' else (list(pts) if form == 'list' else np.array(pts, dtype=float))
    if form == 'ndarray':
        return np.array(pts, dtype=float).reshape((len(pts), d))
    return [tuple(p) if form == 'tuple' else list(p) for p in pts]


def impl_cache(case):
    import numpy as np
    f = build(case['fn'])
    g = build(case['fn'])            # a second instance: direct evaluation, never called through the cache
    d = case['dim']
    out = []
    deact = False
    for op in case['ops']:
        k = op[0]
        rec = {}
        try:
            if k == 'single':
                r = f(_as_form(np, op[1], op[2], d, True))
                rec = {'st': 'ok', 'shape': list(np.shape(r)), 'vals': [float(x) for x in np.asarray(r, dtype=float).ravel()]}
            elif k == 'batch':
                r = f(_as_form(np, op[1], op[2], d, False))
                rec = {'st': 'ok', 'shape': list(np.shape(r)), 'vals': [float(x) for x in np.asarray(r, dtype=float).ravel()]}
            elif k == 'vec':
                r = f.eval_vectorized(np.array(op[1], dtype=float).reshape((len(op[1]), d)))
                rec = {'st': 'ok', 'shape': list(np.shape(r)), 'vals': [float(x) for x in np.asarray(r, dtype=float).ravel()]}
            elif k == 'reset':
                r = f.reset_dictionary(); rec = {'st': 'ok', 'ret': repr(r)}
            elif k == 'deact':
                r = f.deactivate_caching(); rec = {'st': 'ok', 'ret': repr(r)}
                deact = True
            elif k == 'size':
                rec = {'st': 'ok', 'size': int(f.get_f_dict_size())}
        except Exception as e:  # exceptions are observables; the sequence goes on
            import traceback
            tb = traceback.extract_tb(e.__traceback__)
            where = ''
            for fr in reversed(tb):
                if 'sparseSpACE' in fr.filename:
                    where = '%s:%d' % (fr.filename.split('sparseSpACE/')[-1], fr.lineno)
                    break
            rec = {'st': 'exc', 'exc': type(e).__name__, 'where': where, 'msg': str(e)[:120]}
        rec['size_after'] = int(f.get_f_dict_size())
        keys = f.get_f_dict_points()
        vals = f.get_f_dict_values()
        rec['dict'] = sorted([[float(x) + 0.0 for x in kk], _norm_value(vv)] for kk, vv in zip(keys, vals))
        out.append(rec)
    # direct evaluation table (fresh instance), for every point mentioned in the case
    table = {}
    for op in case['ops']:
        pts = [op[1]] if op[0] == 'single' else (op[1] if op[0] in ('batch', 'vec') else [])
        for p in pts:
            key = tuple(float(x) + 0.0 for x in p)
            if key not in table:
                try:
                    table[key] = _norm_value(g.eval(tuple(p)))
                except Exception as e:
                    table[key] = ['exc', type(e).__name__]
    return {'olen': int(f.output_length()), 'steps': out, 'table': [[list(k), v] for k, v in table.items()],
            'has_vec_override': type(f).eval_vectorized is not __import__('sparseSpACE.Function', fromlist=['Function']).Function.eval_vectorized}


def _breaks(spec, d, a, b):
    """Per-dimension break points (kinks / jumps of the integrand) for the composite Gauss-Legendre rule."""
    c, p = spec['cls'], spec.get('p', {})
    br = [[] for _ in range(d)]
    if c in ('GenzProductPeak', 'GenzC0', 'GenzGaussian', 'FunctionGeneralizedNormal'):
        br = [[m] for m in p['mid']]
    elif c in ('GenzDiscontinious', 'GenzDiscontinious2'):
        br = [[m] for m in p['border']]
    elif c == 'FunctionG':
        br = [[0.5] for _ in range(d)]
    elif c == 'FunctionGShifted':
        br = [[0.3, 0.8] for _ in range(d)]
    elif c == 'FunctionExpVar':
        br = [[b[k] * 2.0 ** -j for j in range(1, 25)] if a[k] == 0.0 else [] for k in range(d)]
    elif c in ('FunctionUQ', 'FunctionUQ2'):
        br[1] = [0.0]
    elif c == 'FunctionUQShifted':
        br[1] = [-0.221413]
    elif c == 'FunctionShift':
        inner = _breaks(p['f'], d, a, b)
        br = [[x - p['shift'][k] for x in inner[k]] for k in range(d)]
    elif c == 'FunctionCompose':
        for s, _ in p['fs']:
            for k, x in enumerate(_breaks(s, d, a, b)):
                br[k] += x
    return br


def _gl_box(f, a, b, breaks, n):
    import numpy as np
    from scipy.special import roots_legendre
    xs, ws = roots_legendre(n)
    per = []
    for k in range(len(a)):
        cuts = sorted(set([a[k], b[k]] + [x for x in breaks[k] if a[k] < x < b[k]]))
        P, W = [], []
        for lo, hi in zip(cuts[:-1], cuts[1:]):
            P += list((hi - lo) / 2 * xs + (hi + lo) / 2)
            W += list((hi - lo) / 2 * ws)
        per.append((P, W))
    tot = 0.0
    for idx in itertools.product(*[range(len(p[0])) for p in per]):
        x = tuple(per[k][0][i] for k, i in enumerate(idx))
        w = 1.0
        for k, i in enumerate(idx):
            w *= per[k][1][i]
        tot = tot + w * np.asarray(f.eval(x), dtype=float)
    return np.atleast_1d(tot)


def _midpoint_box(f, a, b, n):
    import numpy as np
    grids = [[a[k] + (b[k] - a[k]) * (i + 0.5) / n for i in range(n)] for k in range(len(a))]
    w = 1.0
    for k in range(len(a)):
        w *= (b[k] - a[k]) / n
    tot = 0.0
    for x in itertools.product(*grids):
        tot = tot + w * np.asarray(f.eval(x), dtype=float)
    return np.atleast_1d(tot)


def _component_specs(spec):
    if spec['cls'] == 'FunctionCompose':
        return [s for s, _ in spec['p']['fs']]
    if spec['cls'] == 'FunctionShift':
        return []
    return []


def _analytic(f, a, b):
    import numpy as np
    try:
        r = f.getAnalyticSolutionIntegral(list(a), list(b))
    except Exception as e:
        return {'st': 'exc', 'exc': type(e).__name__, 'msg': str(e)[:120]}
    if r is None:
        return {'st': 'none'}
    try:
        vals = [float(x) for x in np.atleast_1d(np.asarray(r, dtype=float)).ravel()]
    except Exception as e:
        return {'st': 'exc', 'exc': 'NotANumber:' + type(e).__name__, 'msg': repr(r)[:120]}
    return {'st': 'ok', 'vals': vals}


def _numeric(spec, f, a, b, d):
    import numpy as np
    if spec['cls'] == 'FunctionDiagonalDiscont':
        n = {1: 2000, 2: 300, 3: 60}[d]
        v = _midpoint_box(f, a, b, n)
        return {'vals': [float(x) for x in v], 'err': 2e-2, 'rough': True}
    n1, n2 = {1: (40, 56), 2: (28, 40), 3: (12, 18)}[d]
    br = _breaks(spec, d, a, b)
    if max(len(x) for x in br) > 4:
        n1, n2 = 8, 12        # many geometric pieces (ExpVar at 0): low order per piece suffices
    v1 = _gl_box(f, a, b, br, n1)
    v2 = _gl_box(f, a, b, br, n2)
    return {'vals': [float(x) for x in v2], 'err': float(np.max(np.abs(v1 - v2))), 'rough': False}


def impl_integral(case):
    import numpy as np
    spec, d = case['fn'], case['dim']
    f = build(spec)
    res = {'boxes': [], 'points': []}
    for a, b in case['boxes']:
        rec = {'analytic': _analytic(build(spec), a, b), 'numeric': _numeric(spec, f, a, b, d), 'components': []}
        if spec['cls'] == 'FunctionCompose':
            for s, _w in spec['p']['fs']:
                g = build(s)
                rec['components'].append({'cls': s['cls'], 'analytic': _analytic(g, a, b), 'numeric': _numeric(s, g, a, b, d)})
        res['boxes'].append(rec)
    g = build(spec)
    for p in case['points']:
        try:
            ev = _norm_value(g.eval(tuple(p)))
            one = [float(x) for x in np.asarray(g(tuple(p)), dtype=float).ravel()]
            bat = [float(x) for x in np.asarray(g([tuple(p)]), dtype=float).ravel()]
            res['points'].append({'st': 'ok', 'eval': ev, 'call': one, 'batch': bat})
        except Exception as e:
            res['points'].append({'st': 'exc', 'exc': type(e).__name__})
    return res


# ------------------------------------------------------------------------------------------------ comparison helpers
def close(x, y, rtol=RTOL, atol=ATOL):
    x, y = float(x), float(y)
    if math.isnan(x) or math.isnan(y):
        return False
    return abs(x - y) <= rtol * max(abs(x), abs(y)) + atol


def close_list(xs, ys, rtol=RTOL, atol=ATOL):
    return len(xs) == len(ys) and all(close(x, y, rtol, atol) for x, y in zip(xs, ys))


def finite(xs):
    return all(isinstance(x, (int, float)) and math.isfinite(x) for x in xs)


def wire_ops(ops):
    w = []
    for op in ops:
        k = op[0]
        if k == 'single':
            w.append([0, [sx.rat(x) for x in op[1]]])
        elif k == 'batch':
            w.append([1, [[sx.rat(x) for x in p] for p in op[1]]])
        elif k == 'vec':
            w.append([2, [[sx.rat(x) for x in p] for p in op[1]]])
        else:
            w.append([{'reset': 3, 'deact': 4, 'size': 5}[k]])
    return w


def qf(v):
    return float(sx.q(v))


def cmp_step(op, m, i, olen):
    """Compare one step of the model (decoded wire) with the implementation record. Returns list of (observable, detail)."""
    mres, msize, mdict, mcache = m
    diffs = []
    tag = mres[0]
    if tag == -1:
        if not (i['st'] == 'exc' and i['exc'] in EXC_OF_ERR[mres[1]]):
            diffs.append(('exception', 'model raises %s, implementation: %s' % (EXC_OF_ERR[mres[1]], _short(i))))
    elif i['st'] != 'ok':
        diffs.append(('exception', 'implementation raises %s at %s (%s), model returns' % (i['exc'], i.get('where'), i.get('msg'))))
    elif tag in (0, 1, 2):
        rows = [[qf(x) for x in mres[1]]] if tag == 0 else [[qf(x) for x in r] for r in mres[1]]
        flat = [x for r in rows for x in r]
        if tag == 0:
            want_shape = [[olen]]
        elif tag == 1:
            want_shape = [[len(rows), olen]]
        else:   # direct eval_vectorized: generic implementation returns (n, olen); overrides of scalar functions (n,)
            want_shape = [[len(rows), olen]] + ([[len(rows)]] if olen == 1 else [])
        if i['shape'] not in want_shape:
            diffs.append(('shape', 'implementation shape %s, expected %s' % (i['shape'], want_shape[0])))
        elif not close_list(flat, i['vals']):
            diffs.append(('values', 'implementation %s, model (= direct eval) %s' % (i['vals'][:6], flat[:6])))
    elif tag == 3:
        if i.get('ret') != 'None':
            diffs.append(('return', 'expected None, got %s' % i.get('ret')))
    elif tag == 5:
        if mcache and i.get('size') != mres[1]:
            diffs.append(('counter', 'get_f_dict_size() = %s, model %s' % (i.get('size'), mres[1])))
    if mcache:
        if i['size_after'] != msize:
            diffs.append(('counter', 'size after op: implementation %s, model %s' % (i['size_after'], msize)))
        md = sorted([[qf(x) for x in k], [qf(x) for x in v]] for k, v in mdict)
        ik = [k for k, _ in i['dict']]
        if [k for k, _ in md] != ik:
            diffs.append(('dict-keys', 'implementation %s, model %s' % (ik[:5], [k for k, _ in md][:5])))
        elif not all(close_list(mv, iv) for (_, mv), (_, iv) in zip(md, i['dict'])):
            diffs.append(('dict-values', 'cached values differ from direct eval'))
    return diffs


def _short(i):
    return ('%s at %s' % (i['exc'], i.get('where'))) if i['st'] == 'exc' else 'returns shape %s' % (i.get('shape'),)


def oracle_cache(case, r):
    """The property's predicate on the implementation alone. Returns list of (kind, sig, step, detail)."""
    olen = r['olen']
    tab = {tuple(k): v for k, v in r['table']}
    ev = lambda p: tab[tuple(float(x) + 0.0 for x in p)]
    bad = []
    seen = set()
    on = True
    cls = case['fn']['cls']
    if any(v and v[0] != 'exc' and len(v) != olen for v in tab.values()):
        # the declared output length is wrong: every call fails; report that and nothing else
        for step, op in enumerate(case['ops']):
            if op[0] in ('single', 'batch', 'vec') and op[1]:
                p0 = op[1] if op[0] == 'single' else op[1][0]
                return [('declared-output-length-wrong', {'cls': cls}, step,
                         'eval returns %d components, output_length() declares %d' % (len(ev(p0)), olen))]
        return []
    for step, (op, i) in enumerate(zip(case['ops'], r['steps'])):
        k = op[0]
        if k in ('single', 'batch', 'vec'):
            pts = [op[1]] if k == 'single' else op[1]
            want = [ev(p) for p in pts]
            if any(w and w[0] == 'exc' for w in want):
                continue   # direct evaluation itself is undefined at this point
            if any(len(w) != olen for w in want):
                bad.append(('declared-output-length-wrong', {'cls': cls}, step,
                            'eval returns %d components, output_length() declares %d' % (len(want[0]), olen)))
                continue
            if i['st'] != 'ok':
                if k == 'single' and not on and i['exc'] == 'UnboundLocalError':
                    bad.append(('single-point-cache-off-raises', {'exc': i['exc']}, step, i.get('msg')))
                elif k == 'batch' and not pts and i['exc'] == 'IndexError':
                    bad.append(('empty-batch-raises', {'exc': i['exc']}, step, i.get('msg')))
                else:
                    bad.append(('call-raises', {'exc': i['exc'], 'op': k, 'cache_on': on, 'empty': not pts}, step, i.get('msg')))
                continue
            shape = [olen] if k == 'single' else [len(pts), olen]
            ok_shape = i['shape'] == shape or (k == 'vec' and olen == 1 and i['shape'] == [len(pts)])
            if not ok_shape:
                bad.append(('shape-differs', {'op': k, 'empty': not pts}, step, 'shape %s, expected %s' % (i['shape'], shape)))
            elif not close_list([x for w in want for x in w], i['vals']):
                bad.append(('value-differs', {'op': k, 'cache_on': on}, step,
                            'returned %s, direct eval %s' % (i['vals'][:6], [x for w in want for x in w][:6])))
            if k != 'vec' and i['st'] == 'ok' and (on or k == 'batch'):
                for p in pts:
                    seen.add(tuple(float(x) + 0.0 for x in p))
        elif i['st'] != 'ok':
            bad.append(('call-raises', {'exc': i['exc'], 'op': k, 'cache_on': on, 'empty': False}, step, i.get('msg')))
        elif k == 'reset':
            seen = set()
        elif k == 'deact':
            on = False
        if on and i['size_after'] != len(seen):
            bad.append(('counter-differs', {'op': k}, step, 'get_f_dict_size() = %d, distinct points since reset = %d' % (i['size_after'], len(seen))))
        if on and k == 'size' and i['st'] == 'ok' and i['size'] != len(seen):
            bad.append(('counter-differs', {'op': k}, step, 'returned %d, distinct points = %d' % (i['size'], len(seen))))
    return bad


_SHRUNK = {}


def shrink_cache(case, kind, step, key=None, sig=None):
    """Greedy shrinking of an op sequence: the shrunk case must still show a violation of the same kind (oracle).
    Only the first occurrence of a violation group per run is shrunk (each round costs a pool of workers)."""
    best = dict(case, ops=case['ops'][:step + 1])
    _SHRUNK[key] = _SHRUNK.get(key, 0) + 1
    if _SHRUNK[key] > 1:
        return best
    for _round in range(6):
        cands = []
        for j in range(len(best['ops']) - 1):
            cands.append(dict(best, ops=best['ops'][:j] + best['ops'][j + 1:]))
        for j, op in enumerate(best['ops']):
            if op[0] in ('batch', 'vec') and len(op[1]) > 1:
                for t in range(len(op[1])):
                    cands.append(dict(best, ops=best['ops'][:j] + [[op[0], op[1][:t] + op[1][t + 1:]] + op[2:]] + best['ops'][j + 1:]))
        if not cands:
            break
        res = run_impl(impl_cache, cands, limit=60)
        better = None
        for c, (st, r) in zip(cands, res):
            if st == 'ok' and any(b[0] == kind and (sig is None or b[1] == sig) for b in oracle_cache(c, r)):
                if better is None or len(str(c['ops'])) < len(str(better['ops'])):
                    better = c
        if better is None:
            break
        best = better
    return best


# ------------------------------------------------------------------------------------------------ polynomial family wire
def poly_wire(spec):
    c, p = spec['cls'], spec['p']
    R = sx.rat
    if c == 'ConstantValue': return [0, R(p['value'])]
    if c == 'FunctionLinear': return [1, [R(x) for x in p['coeffs']]]
    if c == 'FunctionMultilinear': return [2, [R(x) for x in p['coeffs']]]
    if c == 'FunctionPolynomial': return [3, [R(x) for x in p['coeffs']], int(p['degree'])]
    if c == 'Polynomial1d': return [4, [R(x) for x in p['coeffs']]]
    if c == 'FunctionCompose' and all(s['cls'] in POLY_CLASSES for s, _ in p['fs']):
        return [5, [[poly_wire(s), R(w)] for s, w in p['fs']]]
    return None


def feature(spec, d):
    """Structural description of the instance used in violation signatures."""
    c, p = spec['cls'], spec.get('p', {})
    if c == 'FunctionMultilinear':
        return 'dim>1' if d > 1 else 'dim=1'
    if c == 'GenzOszillatory':
        return 'all-coeffs-zero' if all(x == 0 for x in p['coeffs']) else 'some-coeff-nonzero'
    return ''


def judge_integral(chk, case, bi, spec, d, a, b, an, nu, exact=None, cur=None, fixd=None):
    """Property clause: analytic integral == numerically computed integral of the point evaluation.
    exact: the formal polynomial integral from the Coq model (Fraction) when available."""
    cls = spec['cls']
    sig = {'cls': cls, 'feature': feature(spec, d)}
    fc = {'kind': 'integral', 'fn': spec, 'dim': d, 'boxes': [[a, b]], 'points': []}
    if an['st'] == 'none':
        chk.violation('oracle:analytic_integral_equals_numeric', 'analytic-integral-none', {'cls': cls}, fc,
                      dict(analytic=None, numeric=nu['vals'], exact=str(exact)))
        return 'none'
    if an['st'] == 'exc':
        chk.violation('oracle:analytic_integral_equals_numeric', 'analytic-integral-raises', dict(sig, exc=an['exc']), fc,
                      dict(analytic=an, numeric=nu['vals']))
        return 'exc'
    tol_r = 2e-2 if nu['rough'] else (1e-3 if cls in JUMP_QUAD else 1e-6 if cls in SCIPY_QUAD else INT_RTOL)
    if not nu['rough'] and nu['err'] > 0.05 * tol_r * (1.0 + max(abs(x) for x in nu['vals'])):
        chk.count('integral:quadrature-unreliable')
        if exact is None:
            return 'unreliable'
    ref = nu['vals']
    if len(an['vals']) == 1 and len(ref) > 1:
        an = dict(an, vals=an['vals'] * len(ref))       # a scalar result stands for all output components
    ok_num = len(ref) == len(an['vals']) and all(close(x, y, tol_r, tol_r) for x, y in zip(an['vals'], ref))
    ok_exact = True
    if exact is not None:
        ok_exact = len(an['vals']) == 1 and close(an['vals'][0], float(exact), 1e-12, 1e-13)
        if not close(ref[0], float(exact), tol_r, tol_r):
            chk.violation('corr:C12/quadrature_vs_formal_integral', 'numeric-vs-formal-integral', sig, fc,
                          dict(numeric=ref, formal=str(exact)), failing_input=False)
    if ok_num and ok_exact:
        return 'ok'
    s2 = dict(sig)
    if cur is not None:
        s2['matches_coded_formula'] = bool(cur[0] == 0 and close(an['vals'][0], qf(cur[1]), 1e-12, 1e-13))
    chk.violation('oracle:analytic_integral_equals_numeric', 'analytic-integral-wrong', s2, fc,
                  dict(analytic=an['vals'], numeric=ref, quadrature_error_estimate=nu['err'],
                       formal_integral=(str(exact) if exact is not None else None)))
    return 'wrong'


# ------------------------------------------------------------------------------------------------ run
CORPUS_CACHE = [
    # exemplars of the known findings (always first)
    {'kind': 'cache', 'fn': {'cls': 'FunctionLinear', 'p': {'coeffs': [1.0, 2.0]}}, 'dim': 2,
     'ops': [['deact'], ['single', [0.5, 0.25], 'tuple']]},
    {'kind': 'cache', 'fn': {'cls': 'FunctionLinear', 'p': {'coeffs': [1.0, 2.0]}}, 'dim': 2, 'ops': [['batch', [], 'list']]},
    {'kind': 'cache', 'fn': {'cls': 'GenzDiscontinious2', 'p': {'coeffs': [1.0, 1.0], 'border': [0.5, 0.5]}}, 'dim': 2,
     'ops': [['single', [0.25, 0.25], 'tuple']]},
    {'kind': 'cache', 'fn': {'cls': 'FunctionCantileverBeamD', 'p': {}}, 'dim': 3, 'ops': [['single', [1.0, 2.0, 3.0], 'tuple']]},
    # regression: batch then single hit, reset, repeated, size
    {'kind': 'cache', 'fn': {'cls': 'GenzCornerPeak', 'p': {'coeffs': [1.0, 2.0]}}, 'dim': 2,
     'ops': [['batch', [[0.5, 0.25], [1.0, 1.0], [0.5, 0.25]], 'tuple'], ['size'], ['single', [1.0, 1.0], 'tuple'], ['reset'], ['size'],
             ['single', [1.0, 1.0], 'list'], ['single', [1.0, 1.0], 'ndarray'], ['size'], ['vec', [[0.0, 0.0], [1.0, 1.0]]],
             ['batch', [[0.0, 0.0], [-0.0, 0.0]], 'ndarray'], ['size']]},
    # cache entries written by the single path (bare scalar / list) read back by the batch path and vice versa
    {'kind': 'cache', 'fn': {'cls': 'FunctionLinear', 'p': {'coeffs': [1.0, 2.0]}}, 'dim': 2,
     'ops': [['single', [0.5, 0.25], 'tuple'], ['single', [1.0, 1.0], 'tuple'], ['batch', [[0.5, 0.25], [1.0, 1.0]], 'tuple'], ['size']]},
    {'kind': 'cache', 'fn': {'cls': 'FunctionLinear', 'p': {'coeffs': [1.0, 2.0]}}, 'dim': 2,
     'ops': [['batch', [[0.5, 0.25]], 'tuple'], ['single', [1.0, 1.0], 'tuple'], ['batch', [[0.5, 0.25], [1.0, 1.0]], 'tuple'],
             ['batch', [[0.5, 0.25], [1.0, 1.0]], 'tuple'], ['size']]},
    {'kind': 'cache', 'fn': {'cls': 'CustomFunction', 'p': {'fn': 'vec2', 'olen': 2}}, 'dim': 2,
     'ops': [['single', [0.5, 0.25], 'tuple'], ['batch', [[0.5, 0.25]], 'tuple'], ['batch', [[1.0, 0.0], [0.5, 0.25]], 'tuple'],
             ['reset'], ['batch', [[0.5, 0.25]], 'list'], ['single', [0.5, 0.25], 'ndarray'], ['size']]},
    {'kind': 'cache', 'fn': {'cls': 'FunctionCustom', 'p': {'fns': ['p2a', 'p2b', 'sq1d']}}, 'dim': 1,
     'ops': [['single', [0.5], 'tuple'], ['single', [1.5], 'list'], ['batch', [[0.5], [1.5]], 'tuple'], ['batch', [[1.5], [0.5]], 'ndarray']]},
]
CORPUS_INTEGRAL = [
    {'kind': 'integral', 'fn': {'cls': 'ConstantValue', 'p': {'value': 2.5}}, 'dim': 2, 'boxes': [[[0.0, 0.0], [1.0, 2.0]]], 'points': [[0.5, 0.5]]},
    {'kind': 'integral', 'fn': {'cls': 'FunctionMultilinear', 'p': {'coeffs': [1.0, 2.0]}}, 'dim': 2, 'boxes': [[[0.0, 0.0], [2.0, 3.0]]],
     'points': [[0.5, 0.25]]},
    {'kind': 'integral', 'fn': {'cls': 'GenzOszillatory', 'p': {'coeffs': [0.0, 0.0], 'offset': 0.125}}, 'dim': 2,
     'boxes': [[[0.0, 0.0], [1.0, 2.0]]], 'points': [[0.5, 0.25]]},
    {'kind': 'integral', 'fn': {'cls': 'FunctionMultilinear', 'p': {'coeffs': [3.0]}}, 'dim': 1, 'boxes': [[[0.5], [2.0]]], 'points': [[0.5]]},
]


def check_cache_cases(chk, cases):
    impl = run_impl(impl_cache, cases, limit=120)
    mcases, idx = [], []
    for ci, (c, (st, r)) in enumerate(zip(cases, impl)):
        if st != 'ok':
            chk.violation('corr:C12/cache_history', 'worker-failed', {'status': st}, c, dict(impl=str(r)), failing_input=False)
            continue
        tab = [[[sx.rat(x) for x in k], [sx.rat(x) for x in v]] for k, v in r['table'] if finite(v)]
        if len(tab) != len(r['table']):
            chk.count('cache:nonfinite-or-undefined-eval')
            continue
        w = wire_ops(c['ops'])
        mcases.append((0, [r['olen'], [1, 1], tab, w])); idx.append((ci, 'fixed'))
        mcases.append((0, [r['olen'], [0, 0], tab, w])); idx.append((ci, 'cur'))
    mres = run_model(12, mcases)
    by = {}
    for (ci, v), mr in zip(idx, mres):
        by.setdefault(ci, {})[v] = mr
    keys, samples = [], []
    for ci, mv in sorted(by.items()):
        c = cases[ci]; r = impl[ci][1]
        cls = c['fn']['cls']
        chk.count('cache:cls=' + cls); chk.count('cache:dim=%d' % c['dim'])
        chk.count('cache:pattern=' + c.get('pattern', 'random'))
        for op in c['ops']:
            chk.count('cache:op=' + op[0] + ('-empty' if op[0] == 'batch' and not op[1] else ''))
        chk.traces += 1
        if sx.is_err(mv['fixed']) or isinstance(mv['fixed'], tuple):
            chk.violation('corr:C12/cache_history', 'model-rejects', {}, c, dict(model=str(mv['fixed'])[:300]), failing_input=False)
            continue
        orc = oracle_cache(c, r)
        # --- correspondence: implementation against the model of the repaired code, then of the code as it is
        d_fixed = [(s, cmp_step(c['ops'][s], m, i, r['olen'])) for s, (m, i) in enumerate(zip(mv['fixed'], r['steps']))]
        d_cur = [(s, cmp_step(c['ops'][s], m, i, r['olen'])) for s, (m, i) in enumerate(zip(mv['cur'], r['steps']))]
        nf = sum(1 for _, d in d_fixed if d); nc = sum(1 for _, d in d_cur if d)
        if nf == 0:
            chk.count('cache:agrees-with=fixed-model' if nc else 'cache:agrees-with=both-models')
        elif nc == 0:
            chk.count('cache:agrees-with=current-code-model')
        reported = set()
        for kind, sig, step, detail in orc:
            key = (kind, str(sorted(sig.items())))
            if key in reported:
                continue
            reported.add(key)
            if kind in ('single-point-cache-off-raises', 'empty-batch-raises', 'declared-output-length-wrong'):
                pre = [['deact']] if kind == 'single-point-cache-off-raises' else []
                fc = dict(c, ops=pre + [c['ops'][step]])
            else:
                fc = shrink_cache(c, kind, step, key, sig)
            chk.violation('oracle:cache_transparent', kind, sig, fc, dict(step=step, detail=detail, op=c['ops'][step]))
        if nf and nc and not orc:
            s, d = next((s, d) for s, d in d_cur if d)
            chk.violation('corr:C12/cache_history', 'cache-history-differs', {'observable': d[0][0], 'op': c['ops'][s][0]},
                          dict(c, ops=c['ops'][:s + 1]), dict(step=s, differs=d, note='implementation agrees with neither the model of the current code nor of the repaired code; the property predicate found no failing input'),
                          failing_input=False)
        elif nf and nc:
            # both the oracle and the correspondence disagree: already reported by the oracle with a failing input
            chk.count('cache:corr-and-oracle-disagree')
        kinds = set(op[0] for op in c['ops'])
        if len(c['ops']) >= 4 and ('single' in kinds) and ('batch' in kinds):
            keys.append(('cache', cls, str(c['fn']['p']), str(c['ops'])))
        if len(samples) < 2 and len(c['ops']) >= 6 and {'single', 'batch', 'reset'} <= kinds:
            samples.append(dict(fn=c['fn'], ops=c['ops'][:8], first_results=[(s.get('vals') or s.get('size') or s.get('exc')) for s in r['steps'][:8]]))
    return keys, samples


def check_integral_cases(chk, cases):
    impl = run_impl(impl_integral, cases, limit=300)
    mcases, midx = [], []
    for ci, c in enumerate(cases):
        w = poly_wire(c['fn'])
        if w is not None:
            R = sx.rat
            mcases.append((1, [w, c['dim'], [[R(x) for x in p] for p in c['points']],
                               [[[R(x) for x in a], [R(x) for x in b]] for a, b in c['boxes']]]))
            midx.append(ci)
    mres = dict(zip(midx, run_model(12, mcases)))
    keys, samples = [], []
    for ci, (c, (st, r)) in enumerate(zip(cases, impl)):
        spec, d = c['fn'], c['dim']
        cls = spec['cls']
        chk.count('integral:cls=' + cls); chk.count('integral:dim=%d' % d)
        if st != 'ok':
            chk.violation('corr:C12/integral', 'worker-failed', {'status': st, 'cls': cls}, c, dict(impl=str(r)), failing_input=False)
            continue
        chk.traces += 1
        m = mres.get(ci)
        if m is not None and (sx.is_err(m) or isinstance(m, tuple)):
            chk.violation('corr:C12/integral', 'model-rejects', {'cls': cls}, c, dict(model=str(m)[:300]), failing_input=False)
            m = None
        for bi, ((a, b), rec) in enumerate(zip(c['boxes'], r['boxes'])):
            exact = cur = fixd = None
            if m is not None and m[0] == 1:
                cur, fixd, spec_int = m[2][bi]
                exact = sx.q(spec_int)
            verdict = None
            if cls == 'FunctionCompose' and rec['components']:
                # attribute a failure to the component that fails on its own
                comp_bad = False
                for s, comp in zip([s for s, _ in spec['p']['fs']], rec['components']):
                    v = judge_integral(chk, c, bi, s, d, a, b, comp['analytic'], comp['numeric'])
                    comp_bad = comp_bad or v in ('none', 'exc', 'wrong')
                if comp_bad:
                    chk.count('integral:compose-with-failing-component')
                    continue
            verdict = judge_integral(chk, c, bi, spec, d, a, b, rec['analytic'], rec['numeric'], exact, cur, fixd)
            chk.count('integral:verdict=' + str(verdict))
            if m is not None and m[0] == 1 and rec['analytic']['st'] == 'ok':
                av = rec['analytic']['vals'][0]
                mc = cur[0] == 0 and close(av, qf(cur[1]), 1e-12, 1e-13)
                mf = fixd[0] == 0 and close(av, qf(fixd[1]), 1e-12, 1e-13)
                chk.count('integral:formula=' + ('coded+fixed' if mc and mf else 'coded-only' if mc else 'fixed-only' if mf else 'unmodelled'))
            elif m is not None and m[0] == 1 and rec['analytic']['st'] == 'none':
                chk.count('integral:formula=' + ('coded-only' if cur[0] == 1 else 'unmodelled'))
        # point values of the polynomial family: exact against the model (dyadic inputs)
        if m is not None and m[0] == 1:
            for p, pr, mp in zip(c['points'], r['points'], m[1]):
                if pr['st'] != 'ok' or mp[0][0] != 0:
                    if not (pr['st'] != 'ok' and mp[0][0] != 0):
                        chk.violation('corr:C12/poly_eval', 'poly-eval-status', {'cls': cls}, dict(c, boxes=[], points=[p]),
                                      dict(impl=pr, model=str(mp)))
                    continue
                mv = sx.q(mp[0][1]); den = sx.q(mp[1])
                got = pr['eval']
                if len(got) != 1 or not close(got[0], float(mv)):
                    chk.violation('corr:C12/poly_eval', 'poly-eval-differs', {'cls': cls}, dict(c, boxes=[], points=[p]),
                                  dict(impl=got, model=str(mv)))
                else:
                    chk.count('poly-eval:' + ('exact' if sx.rat(got[0]) == mv else 'rounded'))
                if mv != den:
                    chk.violation('theorem:eval_is_denotation', 'model-eval-vs-denotation', {'cls': cls}, dict(c, boxes=[], points=[p]),
                                  dict(eval=str(mv), denotation=str(den)), failing_input=False)
                if not (close_list(pr['call'], got) and close_list(pr['batch'], got)):
                    chk.violation('oracle:cache_transparent', 'value-differs', {'op': 'call-vs-eval', 'cache_on': True},
                                  dict(c, boxes=[], points=[p]), dict(eval=got, call=pr['call'], batch=pr['batch']))
        nontrivial = d >= 2 or cls in ('Polynomial1d', 'LambdaFunction')
        if nontrivial:
            keys.append(('integral', cls, str(spec['p']), str(c['boxes'])))
        if len(samples) < 2 and d >= 2 and cls.startswith('Genz') and r['boxes'][0]['analytic']['st'] == 'ok':
            samples.append(dict(fn=spec, box=c['boxes'][0], analytic=r['boxes'][0]['analytic']['vals'], numeric=r['boxes'][0]['numeric']['vals']))
    return keys, samples


ALL_CACHE_CLASSES = ['ConstantValue', 'FunctionDiagonalDiscont', 'FunctionShift', 'FunctionUQNormal', 'FunctionUQNormal2',
                     'FunctionUQWeighted', 'FunctionCantileverBeamD', 'CustomFunction', 'FunctionG', 'FunctionGShifted',
                     'FunctionUQ', 'FunctionUQShifted', 'FunctionUQ2', 'FunctionCompose', 'FunctionLinear', 'FunctionMultilinear',
                     'FunctionPower', 'FunctionPolysPCE', 'FunctionInverseTransform', 'FunctionCustom', 'FunctionConcatenate',
                     'FunctionPolynomial', 'LambdaFunction', 'Polynomial1d', 'GenzCornerPeak', 'GenzProductPeak',
                     'GenzOszillatory', 'GenzDiscontinious', 'GenzDiscontinious2', 'GenzC0', 'GenzGaussian', 'FunctionExpVar',
                     'FunctionGeneralizedNormal']


def run(chk):
    chk.coq_obligations()
    rng = chk.rng
    n_cache = chk.n(420, 14000)
    n_int = chk.n(260, 6000)
    ccases = list(CORPUS_CACHE)
    # every built-in class at least a few times, then free choice
    reps = chk.n(3, 40)
    for cls in ALL_CACHE_CLASSES:
        for _ in range(reps):
            ccases.append(gen_cache_case(rng, cls))
    # short structured histories on one object (single-path entries read by the batch path and vice versa)
    for pat in PATTERNS:
        for cls in SCALAR_RETURNING[:chk.n(6, 12)] + LIST_RETURNING:
            for _ in range(chk.n(1, 12)):
                ccases.append(gen_structured_case(rng, pat, cls))
    while len(ccases) < n_cache:
        ccases.append(gen_structured_case(rng) if rng.random() < 0.25 else gen_cache_case(rng))
    icases = list(CORPUS_INTEGRAL)
    for cls in INTEGRAL_CLASSES:
        for _ in range(chk.n(4, 60)):
            icases.append(gen_integral_case(rng, cls))
    while len(icases) < n_int:
        icases.append(gen_integral_case(rng))
    k1, s1 = check_cache_cases(chk, ccases)
    k2, s2 = check_integral_cases(chk, icases)
    chk.extra['tolerances'] = dict(values_rtol=RTOL, values_atol=ATOL, integral_rtol=INT_RTOL, scipy_quadrature_rtol=1e-6,
                                   simplex_indicator_rtol=2e-2)
    chk.record_cases(len(ccases), k1,
                     'cache machine: every built-in class of Function.py (33), d 1..3, 1..30 ops from {single, batch, empty batch, '
                     'direct eval_vectorized, reset, deactivate, size} over a pool of 1..10 dyadic points (repeats, 0.0/-0.0), input forms '
                     'tuple/list/ndarray; plus structured short histories on one object (singles then the same points as one batch, '
                     'batch + remaining singles then all as one batch, repeated identical batches, batch after reset, ...) on scalar- '
                     'and list-returning classes; non-trivial = >= 4 ops with at least one single and one batch call; distinct by (class, params, ops)', s1)
    chk.record_cases(len(icases), k2,
                     'analytic integrals: 23 classes offering one, d 1..3, 1..3 dyadic boxes each (unit cube only where the class asserts it); '
                     'non-trivial = d >= 2 (or a 1-d-only class); distinct by (class, params, boxes)', s2)


def replay(chk, rep):
    c = rep['case']
    rc = 0
    if c['kind'] == 'cache':
        st, r = run_impl(impl_cache, [c])[0]
        print('impl:', st)
        if st != 'ok':
            print(r); return 1
        for op, s in zip(c['ops'], r['steps']):
            print('  ', op, '->', {k: v for k, v in s.items() if k != 'dict'})
        tab = [[[sx.rat(x) for x in k], [sx.rat(x) for x in v]] for k, v in r['table'] if finite(v)]
        for name, var in (('model of repaired code', [1, 1]), ('model of current code', [0, 0])):
            mr = run_model(12, [(0, [r['olen'], var, tab, wire_ops(c['ops'])])])[0]
            print(name + ':', [[m[0], m[1]] for m in mr] if not sx.is_err(mr) else mr)
        for kind, sig, step, detail in oracle_cache(c, r):
            print('property predicate violated at step', step, ':', kind, sig, detail)
            rc = 1
        if not rc:
            print('property predicate: holds')
    else:
        st, r = run_impl(impl_integral, [c], limit=300)[0]
        print('impl:', st, r)
        w = poly_wire(c['fn'])
        if w is not None:
            R = sx.rat
            print('model (coded, fixed, formal):', run_model(12, [(1, [w, c['dim'], [[R(x) for x in p] for p in c['points']],
                                                                      [[[R(x) for x in a], [R(x) for x in b]] for a, b in c['boxes']]])])[0])
        if st == 'ok':
            for (a, b), rec in zip(c['boxes'], r['boxes']):
                an, nu = rec['analytic'], rec['numeric']
                ok = an['st'] == 'ok' and len(an['vals']) == len(nu['vals']) and all(
                    close(x, y, 2e-2 if nu['rough'] else 1e-6, 1e-6) for x, y in zip(an['vals'], nu['vals']))
                print('box', a, b, 'analytic', an, 'numeric', nu['vals'], '->', 'holds' if ok else 'VIOLATED')
                rc = rc or (0 if ok else 1)
    return rc
