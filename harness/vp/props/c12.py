"""C12: Function evaluation is cache-transparent and matches its analytic integral.

Correspondence model <-> sparseSpACE/Function.py:
  (a) cache machine: random op sequences (single / batch / empty batch / direct eval_vectorized / repeated points /
      reset / deactivate / size) on every built-in class; the model's `eval` is the table of the implementation's own
      direct `eval` values; compared: exception-or-values, shapes, counter, dictionary contents.
  (b) analytic integrals: every class offering one, random dyadic boxes; compared with tensor Gauss-Legendre
      quadrature (scipy nodes) of the point evaluation; the polynomial family additionally exactly against the
      Coq model (faithful integral, fixed integral, formal polynomial integral) and its point values.
The oracle (property predicate on the implementation alone) is evaluated on every case.

Envelope (axes of the property's quantifier, see harness/manifest/C12.json): class x parameters x dimension (1..5) x
HISTORIES ON ONE OBJECT: interleavings of single/batch/empty batch/direct eval_vectorized (2-d and nested 3-d arrays)/
reset/deactivate/size/debug flag, with points of DIFFERENT DIMENSIONS on one object of a dimension-independent class,
several objects alive in one process (same class), batch sizes beyond 64/200/1024 (1025, 2049), input forms
tuple/list/ndarray/int/np.float64/tuple-of-tuples/integer array, near-duplicate points, 0.0/-0.0; analytic integrals on
one object over several boxes (different dimensions, equal lower corner, repeated box, degenerate box) interleaved with
evaluations, compared with a fresh object, with quadrature of the scalar eval and of the object's vectorised evaluation."""
import itertools
import math
from fractions import Fraction
from .. import sx
from ..impl import run_impl
from ..model import run_model
from . import _c12_gen

ASSUMPTIONS = [
    _c12_gen.ASSUMPTION,
    'the theorems that link analytic integrals to Riemann integrals (C12_polynomial1d_integral_is_riemann, C12_polynomial_family_integral_is_iterated_riemann, C12_iterated_integral_1d/_2d, C12_cornerpeak_integral_is_iterated_riemann, C12_cornerpeak_eval_is_real_function, C12_productpeak_/_discontinious_/_c0_/_expvar_integral_is_iterated_riemann, C12_separable_iterated_integral) use the real-number axioms of the Coq standard library (ClassicalDedekindReals.sig_not_dec, sig_forall_dec, FunctionalExtensionality.functional_extensionality_dep, Classical_Prop.classic) through Coquelicot; every other theorem is closed under the global context',
    'iterated Riemann integral over a box (one is_RInt per variable); its identification with the integral over the box (Fubini) is not formalised',
    'GenzProductPeak/GenzDiscontinious/GenzC0/FunctionExpVar theorems are about real-number transcriptions of the Python loops (not executable, tied to the float code by reading and the numeric cross-check)',
    'the abstract method eval is a pure function of the point (modelled as a Section variable; instantiated at run time by the table of the scalar eval values of FRESH instances of the class, one instance per point)',
    'the vectorised evaluation is row-wise (the row of a point does not depend on the other rows): the model is instantiated with the rows that a fresh instance returns for each point alone; math.isclose of check_vectorization modelled as equality (rows isclose to the scalar value are identified)',
    'Python dict keyed by float tuples modelled as association list keyed by exact rationals (0.0 == -0.0, 1 == 1.0 in both)',
    'counter clause checked while caching is on (after deactivate_caching the dictionary content is not compared: the property does not fix it)',
    'analytic integrals of transcendental classes (Genz family except CornerPeak, ExpVar, G, DiagonalDiscont, UQ, Shift, Lambda, base-class quadrature) are cross-checked numerically only in the harness (test, not proof); tolerance 1e-8 relative (1e-6 for scipy-quadrature-based, 2e-2 for the discontinuous simplex indicator)',
    'FunctionUQNormal/FunctionUQNormal2 integrals are weighted integrals (not the integral of eval) and are outside the clause; FunctionGeneralizedNormal is excluded by the property (source marks it incorrect)',
    'zero coefficients are excluded for classes that divide by them without handling (GenzCornerPeak, GenzDiscontinious, GenzC0, GenzGaussian)',
    'float32 points are evaluated (and cached) in single precision by numpy: histories containing float32 points are compared with rtol 1e-5; object arrays directly to eval_vectorized overrides and 1-d arrays to the generic eval_vectorized raise on the unchanged code (excluded)',
    'excluded because the unchanged code raises: points of another dimension on dimension-bound classes (ValueError/IndexError/AssertionError), batches mixing tuples and lists (TypeError unhashable), nested arrays while debug is on, reversed boxes',
]

RTOL = 1e-12
ATOL = 1e-13
INT_RTOL = 1e-8
EXC_OF_ERR = {1: ('UnboundLocalError',), 2: ('IndexError',), 3: ('AssertionError', 'ValueError'), 4: ('AssertionError',)}

# ------------------------------------------------------------------------------------------------ function registry
# named callables used inside wrapper classes (cases stay JSON-serialisable)
LAMBDAS = {
    'p2a': lambda x: x[0] ** 2 + 3.0 * x[-1],
    'p2b': lambda x: 2.0 * x[0] * x[-1] - x[0],
    'p3': lambda x: x[0] ** 2 * x[1] + 3.0 * x[1] * x[-1],
    'vec2': lambda x: [x[0] + x[-1], 2.0 * x[0]],
    'vec3': lambda x: [x[0], x[-1] ** 2, 1.0],
    'sq1d': lambda x: 3.0 * x[0] ** 2, 'sq1d_anti': lambda x: x[0] ** 3,
    'lin1d': lambda x: 2.0 * x[0] - 1.0, 'lin1d_anti': lambda x: x[0] ** 2 - x[0],
    'poly_sum': lambda *c: 1.0 + sum(c), 'poly_first': lambda *c: c[0] * 2.0 - 0.5,
}


class _Ppf:
    def __init__(self, lo, hi):
        self.lo, self.hi = lo, hi

    def ppf(self, u):
        return self.lo + (self.hi - self.lo) * u


def build(spec, watch=None, cform='list'):
    """spec = {'cls': name, 'p': {...}} -> instance of the implementation's class.
    watch: a Watch; the sequence arguments of the constructors (coefficients, midpoints, borders ...) are then created as
    objects of their own (lists, or float64 arrays for cform='ndarray'), kept and snapshotted: no later library call may
    modify them."""
    import numpy as np
    import sparseSpACE.Function as F
    c, p0 = spec['cls'], spec.get('p', {})
    p = dict(p0)
    if watch is not None:
        for k_ in ('coeffs', 'mid', 'border', 'mean', 'std', 'a', 'b', 'norms'):
            if isinstance(p.get(k_), list):
                integral = all(float(x).is_integer() for x in p[k_])
                if cform == 'intarray' and integral:        # parameters given as integer arrays / lists of python ints
                    p[k_] = np.array([int(x) for x in p[k_]], dtype=np.int64)
                elif cform == 'int' and integral:
                    p[k_] = [int(x) for x in p[k_]]
                else:
                    p[k_] = np.array(p[k_], dtype=float) if cform in ('ndarray', 'intarray') else list(p[k_])
                watch.add('constructor-argument:%s.%s' % (c, k_), p[k_])
    build_ = lambda s_: build(s_, watch, cform)
    sub = lambda k: build_(p[k])
    if c == 'ConstantValue': return F.ConstantValue(p['value'])
    if c == 'FunctionDiagonalDiscont': return F.FunctionDiagonalDiscont()
    if c == 'FunctionShift':
        s = list(p['shift'])
        return F.FunctionShift(sub('f'), lambda cs: [x + s[i] for i, x in enumerate(cs)])
    if c == 'FunctionUQNormal': return F.FunctionUQNormal(sub('f'), p['mean'], p['std'], p['a'], p['b'])
    if c == 'FunctionUQNormal2': return F.FunctionUQNormal2(sub('f'), p['mean'], p['std'], p['a'], p['b'])
    if c == 'FunctionUQWeighted': return F.FunctionUQWeighted(sub('f'), sub('w'))
    if c == 'FunctionCantileverBeamD': return F.FunctionCantileverBeamD(**{k: p[k] for k in ('width', 'thickness') if k in p})
    if c == 'CustomFunction': return F.CustomFunction(LAMBDAS[p['fn']], output_length=p['olen'])
    if c == 'FunctionG': return F.FunctionG(p['dim'])
    if c == 'FunctionGShifted': return F.FunctionGShifted(p['dim'])
    if c == 'FunctionUQ': return F.FunctionUQ()
    if c == 'FunctionUQShifted': return F.FunctionUQShifted()
    if c == 'FunctionUQ2': return F.FunctionUQ2()
    if c == 'FunctionCompose': return F.FunctionCompose([(build_(s), w) for s, w in p['fs']])
    if c == 'FunctionLinear': return F.FunctionLinear(p['coeffs'])
    if c == 'FunctionMultilinear': return F.FunctionMultilinear(p['coeffs'])
    if c == 'FunctionPower': return F.FunctionPower(sub('f'), p['exponent'])
    if c == 'FunctionPolysPCE': return F.FunctionPolysPCE(sub('f'), [LAMBDAS[n] for n in p['polys']], p['norms'])
    if c == 'FunctionInverseTransform':
        return F.FunctionInverseTransform(sub('f'), [_Ppf(lo, hi) for lo, hi in p['ranges']])
    if c == 'FunctionCustom':
        fn = [LAMBDAS[n] for n in p['fns']] if 'fns' in p else LAMBDAS[p['fn']]
        return F.FunctionCustom(fn, output_dim=p.get('odim'))
    if c == 'FunctionConcatenate': return F.FunctionConcatenate([build_(s) for s in p['fs']])
    if c == 'FunctionPolynomial': return F.FunctionPolynomial(p['coeffs'], degree=p['degree'])
    if c == 'LambdaFunction': return F.LambdaFunction(LAMBDAS[p['fn']], LAMBDAS[p['fn'] + '_anti'])
    if c == 'Polynomial1d': return F.Polynomial1d(p['coeffs'])
    if c == 'GenzCornerPeak': return F.GenzCornerPeak(p['coeffs'])
    if c == 'GenzProductPeak': return F.GenzProductPeak(p['coeffs'], p['mid'])
    if c == 'GenzOszillatory': return F.GenzOszillatory(p['coeffs'], p['offset'])
    if c == 'GenzDiscontinious': return F.GenzDiscontinious(p['coeffs'], p['border'])
    if c == 'GenzDiscontinious2': return F.GenzDiscontinious2(p['coeffs'], p['border'])
    if c == 'GenzC0': return F.GenzC0(p['coeffs'], p['mid'])
    if c == 'GenzGaussian': return F.GenzGaussian(p['mid'], p['coeffs'])
    if c == 'FunctionExpVar': return F.FunctionExpVar()
    if c == 'FunctionGeneralizedNormal': return F.FunctionGeneralizedNormal(p['mid'], p['coeffs'], p['exp'])
    raise KeyError(c)


SENTINEL = -12345.6789       # written into returned arrays ("scribble"): must never show up in a later result


class Watch:
    """Argument objects handed to the library (constructor sequences, points, point arrays, box corners): a snapshot of the
    value of each is kept; check() names those whose value has changed since (and re-snapshots them)."""

    def __init__(self):
        self.items = []

    @staticmethod
    def snap(o):
        import numpy as np
        if isinstance(o, np.ndarray):
            return ('ndarray', str(o.dtype), tuple(o.shape), o.ravel().tolist())
        if isinstance(o, (list, tuple)):
            return (type(o).__name__, [Watch.snap(x) for x in o])
        return (type(o).__name__, float(o))

    def add(self, label, obj):
        if not any(o is obj for _l, o, _s in self.items):
            self.items.append([label, obj, Watch.snap(obj)])
        return obj

    def check(self):
        changed = []
        for it in self.items:
            now = Watch.snap(it[1])
            if now != it[2]:
                changed.append({'argument': it[0], 'container': it[2][0] + (':' + it[2][1] if it[2][0] == 'ndarray' else ''),
                                'before': str(it[2][-1])[:160], 'after': str(now[-1])[:160]})
                it[2] = now
        return changed


# ------------------------------------------------------------------------------------------------ generators
def dy(rng, lo, hi, bits=3):
    return rng.randrange(int(lo * 2 ** bits), int(hi * 2 ** bits) + 1) / 2 ** bits


def nz(rng, pos=False):
    v = rng.choice([0.5, 1.0, 1.5, 2.0, 3.0, 0.25])
    return v if pos or rng.random() < 0.6 else -v


# classes whose instances accept points of ANY dimension (dim = len(point)); wrappers are dimension-free when their inner
# functions are. Every other class is bound to len(coeffs)/dim of its constructor: points of another dimension raise
# (ValueError broadcast / IndexError / AssertionError) or silently ignore the surplus coordinates (FunctionMultilinear,
# FunctionPolynomial, Polynomial1d, LambdaFunction: eval reads only the first len(coeffs) / the first coordinate).
DIMFREE_SIMPLE = ['ConstantValue', 'FunctionExpVar', 'FunctionDiagonalDiscont', 'CustomFunction', 'FunctionCustom',
                  'Polynomial1d', 'LambdaFunction']
DIMFREE_WRAPPERS = ['FunctionCompose', 'FunctionPower', 'FunctionConcatenate', 'FunctionShift', 'FunctionUQWeighted',
                    'FunctionPolysPCE', 'FunctionUQNormal2']
DIMFREE = DIMFREE_SIMPLE + DIMFREE_WRAPPERS
FREE_INNER = ['FunctionExpVar', 'ConstantValue', 'CustomFunction', 'FunctionDiagonalDiscont']
MAXD = 6


def gen_free_fn(rng, cls=None, for_integral=False, depth=0):
    """Spec of an instance that accepts points of every dimension 1..MAXD; coordinates in [0, 1]."""
    cls = cls or rng.choice(DIMFREE_SIMPLE + (DIMFREE_WRAPPERS if depth == 0 else []))
    inner = lambda pool=FREE_INNER: gen_free_fn(rng, rng.choice(pool), for_integral, depth=1)[0]
    p = {}
    if cls == 'ConstantValue':
        p = {'value': rng.choice([0.0, 1.0, 2.5, -3.0, 3, 0.125])}
    elif cls == 'CustomFunction':
        fn = rng.choice(['p2a', 'p2b', 'vec2', 'vec3'] if depth == 0 else ['p2a', 'p2b'])
        p = {'fn': fn, 'olen': {'vec2': 2, 'vec3': 3}.get(fn, 1)}
    elif cls == 'FunctionCustom':
        if for_integral or rng.random() < 0.5:
            p = {'fn': rng.choice(['p2a', 'p2b'])}
        else:
            p = {'fns': rng.sample(['p2a', 'p2b', 'sq1d', 'lin1d'], rng.randrange(1, 4))}
    elif cls == 'Polynomial1d':
        p = {'coeffs': [rng.choice([0.0, 1.0, -2.0, 0.5, 3.0]) for _ in range(rng.randrange(0, 6))]}
    elif cls == 'LambdaFunction':
        p = {'fn': rng.choice(['sq1d', 'lin1d'])}
    elif cls == 'FunctionCompose':
        pool = ['FunctionExpVar', 'ConstantValue'] if for_integral else ['FunctionExpVar', 'ConstantValue', 'CustomFunction']
        p = {'fs': [[gen_free_fn(rng, rng.choice(pool), for_integral, 2)[0], rng.choice([1.0, -0.5, 2.0, 0.25])]
                    for _ in range(rng.randrange(1, 4))]}
        for s, _w in p['fs']:
            if s['cls'] == 'CustomFunction':
                s['p'] = {'fn': rng.choice(['p2a', 'p2b']), 'olen': 1}
    elif cls == 'FunctionPower':
        p = {'f': inner(['FunctionExpVar', 'CustomFunction', 'ConstantValue']), 'exponent': rng.choice([1, 2, 3])}
    elif cls == 'FunctionConcatenate':
        p = {'fs': [inner() for _ in range(rng.randrange(1, 4))]}
    elif cls == 'FunctionShift':
        p = {'f': inner(['FunctionExpVar', 'ConstantValue'] if for_integral else ['FunctionExpVar', 'ConstantValue', 'CustomFunction']),
             'shift': [dy(rng, 0, 1) for _ in range(MAXD)]}
    elif cls == 'FunctionUQWeighted':
        p = {'f': inner(['FunctionExpVar', 'ConstantValue']), 'w': inner(['FunctionExpVar', 'ConstantValue'])}
    elif cls == 'FunctionPolysPCE':
        k = rng.randrange(1, 3)
        p = {'f': inner(['FunctionExpVar', 'CustomFunction']), 'polys': [rng.choice(['poly_sum', 'poly_first']) for _ in range(k)],
             'norms': [rng.choice([1.0, 2.0, 0.5]) for _ in range(k)]}
    elif cls == 'FunctionUQNormal2':
        p = {'f': inner(['FunctionExpVar', 'ConstantValue', 'CustomFunction']), 'mean': [0.0, 0.0], 'std': [1.0, 1.0],
             'a': [-1.0, -1.0], 'b': [1.0, 1.0]}
    return {'cls': cls, 'p': p}, (0.0, 1.0)


def is_dimfree(spec):
    c, p = spec['cls'], spec.get('p', {})
    if c in DIMFREE_SIMPLE:
        return not (c == 'CustomFunction' and p.get('fn') == 'p3') and not (c == 'FunctionCustom' and p.get('fn') == 'p3')
    if c in ('FunctionPower', 'FunctionShift', 'FunctionPolysPCE', 'FunctionUQNormal2'):
        return is_dimfree(p['f']) and (c != 'FunctionShift' or len(p['shift']) >= MAXD)
    if c == 'FunctionUQWeighted':
        return is_dimfree(p['f']) and is_dimfree(p['w'])
    if c == 'FunctionCompose':
        return all(is_dimfree(s) for s, _ in p['fs'])
    if c == 'FunctionConcatenate':
        return all(is_dimfree(s) for s in p['fs'])
    return False


def gen_fn(rng, d, cls=None, for_integral=False, depth=0):
    """Random instance spec in dimension d. Returns (spec, domain) with domain = (lo, hi) for point coordinates."""
    simple = ['ConstantValue', 'FunctionDiagonalDiscont', 'FunctionG', 'FunctionGShifted', 'FunctionLinear',
              'FunctionMultilinear', 'FunctionPolynomial', 'GenzCornerPeak', 'GenzProductPeak', 'GenzOszillatory',
              'GenzDiscontinious', 'GenzC0', 'GenzGaussian', 'FunctionExpVar', 'FunctionGeneralizedNormal',
              'CustomFunction', 'FunctionCustom']
    wrappers = ['FunctionShift', 'FunctionUQNormal', 'FunctionUQNormal2', 'FunctionUQWeighted', 'FunctionCompose',
                'FunctionPower', 'FunctionPolysPCE', 'FunctionInverseTransform', 'FunctionConcatenate']
    special = {1: ['Polynomial1d', 'LambdaFunction'], 2: ['FunctionUQ2'], 3: ['FunctionUQ', 'FunctionUQShifted']}
    if cls is None:
        pool = simple + special.get(d, []) * 2 + (wrappers if depth == 0 else [])
        cls = rng.choice(pool)
    co = [nz(rng) for _ in range(d)]
    pos = [abs(c) for c in co]
    mid = [dy(rng, 0, 1) for _ in range(d)]
    dom = (0.0, 1.0)
    p = {}
    if cls == 'ConstantValue':
        p = {'value': rng.choice([0.0, 1.0, 2.5, -3.0, 3, 0.125])}
    elif cls in ('FunctionG', 'FunctionGShifted'):
        p = {'dim': d}
    elif cls in ('FunctionLinear', 'FunctionMultilinear', 'GenzCornerPeak'):
        if cls == 'GenzCornerPeak':
            p = {'coeffs': pos}
        else:
            p = {'coeffs': [c if rng.random() < 0.9 else 0.0 for c in co]}
            dom = (-1.0, 2.0)
    elif cls == 'FunctionPolynomial':
        p = {'coeffs': co, 'degree': rng.choice([0, 1, 2, 2, 3])}
        dom = (-1.0, 2.0)
    elif cls == 'Polynomial1d':
        p = {'coeffs': [rng.choice([0.0, 1.0, -2.0, 0.5, 3.0]) for _ in range(rng.randrange(0, 6))]}
        dom = (-1.0, 2.0)
    elif cls == 'LambdaFunction':
        p = {'fn': rng.choice(['sq1d', 'lin1d'])}
        dom = (-1.0, 2.0)
    elif cls in ('GenzProductPeak', 'GenzC0'):
        p = {'coeffs': pos if cls == 'GenzProductPeak' or rng.random() < 0.7 else co, 'mid': mid}
    elif cls == 'GenzOszillatory':
        r = rng.random()
        cc = co if r < 0.6 else ([0.0] * d if r < 0.75 else [c if rng.random() < 0.5 else 0.0 for c in co])
        p = {'coeffs': cc, 'offset': dy(rng, 0, 1)}
        dom = (-1.0, 2.0)
    elif cls in ('GenzDiscontinious', 'GenzDiscontinious2'):
        p = {'coeffs': co, 'border': mid}
    elif cls == 'GenzGaussian':
        p = {'coeffs': pos, 'mid': mid}
        dom = (-1.0, 2.0)
    elif cls == 'FunctionGeneralizedNormal':
        p = {'coeffs': pos, 'mid': mid, 'exp': 1}
    elif cls == 'CustomFunction':
        fn = rng.choice(['p2a', 'p2b', 'vec2', 'vec3'] + (['p3'] if d >= 2 else []))
        p = {'fn': fn, 'olen': {'vec2': 2, 'vec3': 3}.get(fn, 1)}
        dom = (-1.0, 2.0)
    elif cls == 'FunctionCustom':
        if for_integral or rng.random() < 0.5:
            p = {'fn': rng.choice(['p2a', 'p2b'] + (['p3'] if d >= 2 else []))}
        else:
            p = {'fns': rng.sample(['p2a', 'p2b', 'sq1d', 'lin1d'], rng.randrange(1, 4))}
        dom = (-1.0, 2.0)
    elif cls == 'FunctionShift':
        inner, _ = gen_fn(rng, d, rng.choice(['FunctionLinear', 'GenzGaussian', 'FunctionPolynomial']), depth=1)
        p = {'f': inner, 'shift': [dy(rng, -1, 1) for _ in range(d)]}
    elif cls in ('FunctionUQNormal', 'FunctionUQNormal2'):
        inner, _ = gen_fn(rng, d, rng.choice(['FunctionLinear', 'GenzGaussian', 'FunctionMultilinear']), depth=1)
        p = {'f': inner, 'mean': [dy(rng, -1, 1) for _ in range(d)], 'std': [rng.choice([0.5, 1.0, 2.0]) for _ in range(d)],
             'a': [-1.0] * d, 'b': [1.0] * d}
    elif cls == 'FunctionUQWeighted':
        inner, _ = gen_fn(rng, d, rng.choice(['FunctionLinear', 'GenzGaussian']), depth=1)
        w, _ = gen_fn(rng, d, rng.choice(['FunctionMultilinear', 'GenzC0']), depth=1)
        p = {'f': inner, 'w': w}
    elif cls == 'FunctionCompose':
        fs = []
        for _ in range(rng.randrange(1, 4)):
            inner, _ = gen_fn(rng, d, rng.choice(['FunctionLinear', 'GenzGaussian', 'FunctionPolynomial', 'FunctionMultilinear',
                                                  'GenzOszillatory', 'ConstantValue'] if not for_integral else
                                                 ['FunctionLinear', 'GenzGaussian', 'FunctionPolynomial', 'GenzC0', 'GenzDiscontinious',
                                                  'GenzOszillatory']), depth=1)
            fs.append([inner, rng.choice([1.0, -0.5, 2.0, 0.25])])
        p = {'fs': fs}
    elif cls == 'FunctionPower':
        inner, _ = gen_fn(rng, d, rng.choice(['FunctionLinear', 'GenzGaussian', 'CustomFunction']), depth=1)
        p = {'f': inner, 'exponent': rng.choice([1, 2, 3])}
    elif cls == 'FunctionPolysPCE':
        inner, _ = gen_fn(rng, d, rng.choice(['FunctionLinear', 'CustomFunction']), depth=1)
        k = rng.randrange(1, 3)
        p = {'f': inner, 'polys': [rng.choice(['poly_sum', 'poly_first']) for _ in range(k)],
             'norms': [rng.choice([1.0, 2.0, 0.5]) for _ in range(k)]}
    elif cls == 'FunctionInverseTransform':
        inner, _ = gen_fn(rng, d, rng.choice(['FunctionLinear', 'GenzGaussian', 'CustomFunction']), depth=1)
        p = {'f': inner, 'ranges': [[dy(rng, -2, 0), dy(rng, 1, 2)] for _ in range(d)]}
    elif cls == 'FunctionConcatenate':
        fs = [gen_fn(rng, d, rng.choice(['FunctionLinear', 'GenzGaussian', 'CustomFunction', 'ConstantValue']), depth=1)[0]
              for _ in range(rng.randrange(1, 4))]
        p = {'fs': fs}
    elif cls in ('FunctionUQ', 'FunctionUQShifted', 'FunctionUQ2'):
        dom = (-1.0, 1.0)
    elif cls == 'FunctionCantileverBeamD' and rng.random() < 0.6:
        p = rng.choice([{'width': 10.0}, {'thickness': 4.0}, {'width': 5.0, 'thickness': 1.0}])     # non-default constructor options
    if cls == 'FunctionCustom' and 'fn' in p and not for_integral and rng.random() < 0.3:
        p = {'fn': rng.choice(['vec2', 'vec3'])}                   # one callable with several outputs: output_dim given explicitly
        p['odim'] = {'vec2': 2, 'vec3': 3}[p['fn']]
    return {'cls': cls, 'p': p}, dom


VEC_OVERRIDE = ('FunctionLinear', 'GenzCornerPeak', 'GenzProductPeak', 'GenzOszillatory', 'GenzDiscontinious', 'GenzC0',
                'GenzGaussian', 'FunctionExpVar')
BIG_SIZES = [64, 200, 1024, 1025, 2049]
FIXED_DIM = {'FunctionUQ': 3, 'FunctionUQShifted': 3, 'FunctionCantileverBeamD': 3, 'FunctionUQ2': 2, 'Polynomial1d': 1,
             'LambdaFunction': 1}


def case_specs(case):
    return case['fns'] if 'fns' in case else [case['fn']]


def _pool(rng, d, dom, n, near=False, zeros=False):
    pool = []
    while len(pool) < n:
        p = [dy(rng, dom[0], dom[1]) for _ in range(d)]
        pool.append(p)
    if near and pool:
        q = list(rng.choice(pool))
        j = rng.randrange(d)
        q[j] = q[j] + 2.0 ** -30 if q[j] + 2.0 ** -30 <= dom[1] else q[j] - 2.0 ** -30      # a near-duplicate: a different key
        pool.append(q)
    if zeros and dom[0] <= 0.0:
        pool.append([0.0] * d)
        pool.append([-0.0] * d)            # the same dictionary key as 0.0
    return pool


def _integral_pt(p):
    return all(float(x).is_integer() for x in p)


def _form(rng, pts, single):
    if single:
        f = rng.choice(['tuple', 'tuple', 'tuple', 'list', 'ndarray', 'npfloat', 'int'])
        return f if f != 'int' or _integral_pt(pts) else 'tuple'
    f = rng.choice(['tuple', 'tuple', 'tuple', 'list', 'ndarray', 'tot', 'intarray'])
    return f if f != 'intarray' or all(_integral_pt(p) for p in pts) else 'ndarray'


def _arg_axes(rng, c):
    """How the caller treats argument and result objects: constructor sequences as lists or float64 arrays; in a share of the
    cases the caller overwrites every array it gets back."""
    c['cform'] = rng.choice(['list', 'ndarray'])
    if rng.random() < 0.15:
        c['scribble'] = True
    if rng.random() < 0.5:
        c['caller_mutates'] = True            # axis (j): after ~30% of the steps the caller edits an object it passed earlier
    return c


def gen_cache_case(rng, cls=None, multidim=None, big=None, multiobj=None, debug=None):
    """Random history. Features (None = drawn): multidim = points of several dimensions on one object (dimension-free
    classes only), big = one batch size beyond the usual thresholds, multiobj = several objects of the class alive and
    interleaved, debug = the debug flag is switched during the history."""
    d = FIXED_DIM.get(cls) or rng.choice([1, 2, 2, 3, 3, 4, 5, 7])
    free = False
    if cls in DIMFREE and cls not in FIXED_DIM and (multidim or (multidim is None and rng.random() < 0.5)):
        fn, dom = gen_free_fn(rng, cls)
        free = True
    elif cls is None and (multidim or (multidim is None and rng.random() < 0.25)):
        fn, dom = gen_free_fn(rng)
        free = True
    else:
        fn, dom = gen_fn(rng, d, cls)
        if cls in ('Polynomial1d', 'LambdaFunction') and (multidim or (multidim is None and rng.random() < 0.3)):
            free = True                       # eval reads coordinates[0] only: every dimension >= 1 is accepted
    if fn['cls'] == 'FunctionCantileverBeamD':
        dom = (1.0, 2.0)
    if fn['cls'] in FIXED_DIM and not free:
        d = FIXED_DIM[fn['cls']]
    dims = [d]
    if free:
        dims = rng.sample([1, 2, 3, 4, 5], rng.choice([2, 2, 3]))
        d = dims[0]
    fns = [fn]
    if multiobj or (multiobj is None and rng.random() < 0.2):
        for _ in range(rng.choice([1, 1, 2])):
            if rng.random() < 0.3:
                fns.append(fn)                   # an equal twin
            else:
                fns.append(gen_free_fn(rng, fn['cls'])[0] if free and fn['cls'] in DIMFREE and fn['cls'] not in FIXED_DIM
                           else gen_fn(rng, d, fn['cls'])[0])
    near = rng.random() < 0.2
    pools = {k: _pool(rng, k, dom, rng.choice([1, 2, 3, 5, 8]), near=near, zeros=rng.random() < 0.3) for k in dims}
    pt = lambda k: list(rng.choice(pools[k]))
    bigsize = None
    if big or (big is None and rng.random() < 0.03):
        bigsize = big if isinstance(big, int) and big > 1 else rng.choice(BIG_SIZES[:2] * 3 + BIG_SIZES[2:])
    nops = rng.randrange(1, 31) if bigsize is None else rng.randrange(2, 7)
    deact_at = rng.randrange(nops) if rng.random() < 0.3 else None
    big_at = rng.randrange(nops) if bigsize else None
    use_debug = debug or (debug is None and rng.random() < 0.2)
    dbg = False
    ops = []
    for i in range(nops):
        k = rng.choice(dims)
        if i == deact_at:
            ops.append(['deact'])
            continue
        if i == big_at:
            bits = 12
            lat = set()
            while len(lat) < bigsize:
                lat.add(tuple(dom[0] + (dom[1] - dom[0]) * rng.randrange(0, 2 ** bits + 1) / 2 ** bits for _ in range(k)))
            pts = [list(p) for p in sorted(lat)]
            rng.shuffle(pts)
            if rng.random() < 0.5:
                pts = pts[:-1] + [pts[0]]            # same length, one repeated point
            ops.append(['batch', pts, rng.choice(['tuple', 'ndarray'])])
            continue
        r = rng.random()
        if len(fns) > 1 and r < 0.12:
            ops.append(['obj', rng.randrange(len(fns))])
        elif use_debug and r < 0.20:
            dbg = not dbg
            ops.append(['debug', 1 if dbg else 0])
        elif r < 0.42:
            p = pt(k)
            ops.append(['single', p, _form(rng, p, True)])
        elif r < 0.64:
            ps = [pt(k) for _ in range(rng.randrange(1, 6))]
            ops.append(['batch', ps, _form(rng, ps, False)])
        elif r < 0.69:
            ops.append(['batch', [], rng.choice(['list', 'ndarray', 'tuple'])])
        elif r < 0.78:
            ops.append(['vec', [pt(k) for _ in range(rng.randrange(0 if len(dims) == 1 else 1, 5))]])
        elif r < 0.82 and not use_debug:
            m = rng.randrange(1, 4)
            ops.append(['vecn', [[pt(k) for _ in range(m)] for _ in range(rng.randrange(1, 4))]])
        elif r < 0.90:
            ops.append(['reset'])
        else:
            ops.append(['size'])
    c = {'kind': 'cache', 'fn': fn, 'dim': d, 'ops': ops}
    if len(fns) > 1:
        c['fns'] = fns
    return _arg_axes(rng, c)


SCALAR_RETURNING = ['FunctionLinear', 'FunctionMultilinear', 'FunctionPolynomial', 'GenzCornerPeak', 'GenzGaussian', 'ConstantValue',
                    'GenzC0', 'FunctionExpVar', 'FunctionG', 'GenzOszillatory', 'GenzProductPeak', 'GenzDiscontinious']
LIST_RETURNING = ['CustomFunction', 'FunctionCustom', 'FunctionPower', 'FunctionPolysPCE', 'FunctionConcatenate', 'FunctionDiagonalDiscont']
PATTERNS = ['singles-then-batch', 'batch-rest-singles-then-all', 'repeated-batches', 'batch-after-reset', 'batch-then-singles',
            'singles-twice-then-batch-twice']
# histories that change the DIMENSION of the points on one object (dimension-free classes)
XPATTERNS = ['xdim-batch-batch', 'xdim-vec-batch', 'xdim-single-batch', 'xdim-reset-between', 'xdim-deact', 'xdim-twins']


def gen_structured_case(rng, pattern=None, cls=None):
    """Short histories ON ONE OBJECT that mix cache entries written by the single path (raw eval result: bare scalar or list)
    and by the batch path (array rows), then read them back through the other path."""
    pattern = pattern or rng.choice(PATTERNS)
    cls = cls or rng.choice(SCALAR_RETURNING + LIST_RETURNING)
    d = rng.choice([1, 2, 2, 3, 4])
    fn, dom = gen_fn(rng, d, cls)
    k = rng.randrange(1, 5)
    pts = []
    while len(pts) < k:
        p = [dy(rng, dom[0], dom[1]) for _ in range(d)]
        if p not in pts:
            pts.append(p)
    f1 = rng.choice(['tuple', 'tuple', 'list', 'ndarray', 'npfloat'])
    f2 = rng.choice(['tuple', 'tuple', 'list', 'ndarray', 'tot'])
    S = lambda p: ['single', list(p), f1]
    B = lambda ps: ['batch', [list(p) for p in ps], f2]
    if pattern == 'singles-then-batch':
        ops = [S(p) for p in pts] + [['size'], B(pts), ['size'], B(list(reversed(pts)))]
    elif pattern == 'batch-rest-singles-then-all':
        h = rng.randrange(0, k + 1)
        ops = ([B(pts[:h])] if h else []) + [S(p) for p in pts[h:]] + [['size'], B(pts), B(pts), ['size']]
    elif pattern == 'repeated-batches':
        ops = [B(pts), B(pts), ['size'], B(pts + pts[:1]), ['size']]
    elif pattern == 'batch-after-reset':
        ops = [B(pts), S(pts[0]), ['reset'], ['size'], B(pts), ['size'], ['reset'], S(pts[-1]), B(pts), ['size']]
    elif pattern == 'batch-then-singles':
        ops = [B(pts)] + [S(p) for p in pts] + [['size'], B(pts[:1]), S(pts[0])]
    else:
        ops = [S(p) for p in pts] + [S(p) for p in pts] + [B(pts), B(pts), ['size'], ['vec', [list(p) for p in pts]], B(pts)]
    if rng.random() < 0.15:
        ops.insert(rng.randrange(len(ops)), ['deact'])
    return _arg_axes(rng, {'kind': 'cache', 'fn': fn, 'dim': d, 'ops': ops, 'pattern': pattern})


# ---- value / dtype axis: integer and single-precision typed points whose VALUES are non-trivial for the function
WIDE_RANGE = {'GenzCornerPeak': (0, 3), 'FunctionExpVar': (0, 4), 'FunctionGShifted': (0, 1), 'FunctionInverseTransform': (0, 1),
              'FunctionCantileverBeamD': (1, 4), 'FunctionUQ': (-2, 2), 'FunctionUQShifted': (-2, 2), 'FunctionUQ2': (-2, 2)}


def _widen(rng, spec, integerise):
    """Move the interesting region of the instance beyond the unit cube (borders > 1) and, if asked, make every parameter
    sequence integer-valued (so that it can be given as python ints / an integer array)."""
    c, p = spec['cls'], spec.get('p', {})
    if 'border' in p:
        p['border'] = [rng.choice([1.5, 2.5, 3.5] if not integerise else [2.0, 3.0]) for _ in p['border']]
    if integerise:
        if 'coeffs' in p:
            p['coeffs'] = [float(max(1, round(abs(x)))) * (1 if x >= 0 else -1) for x in p['coeffs']]
        for k_ in ('mid', 'mean'):
            if k_ in p:
                p[k_] = [float(round(x)) for x in p[k_]]
        if 'std' in p:
            p['std'] = [float(max(1, round(x))) for x in p['std']]
    for k_ in ('f', 'w'):
        if isinstance(p.get(k_), dict):
            _widen(rng, p[k_], integerise)
    if c == 'FunctionCompose':
        for s_, _w in p['fs']:
            _widen(rng, s_, integerise)
    if c == 'FunctionConcatenate':
        for s_ in p['fs']:
            _widen(rng, s_, integerise)
    return spec


def gen_dtype_case(rng, cls=None):
    """Points given with integer / single-precision number types (arrays of dtype int64, int32, float32, object; python ints;
    mixed int/float batches; a point as a 1-d array for eval_vectorized overrides) on integer lattices that reach beyond the
    unit cube, parameters optionally as python ints / integer arrays. Reference: scalar eval of python floats on a fresh
    instance built from float parameters."""
    cls = cls or rng.choice(ALL_CACHE_CLASSES)
    d = FIXED_DIM.get(cls) or rng.choice([1, 2, 2, 3])
    fn, _dom = gen_fn(rng, d, cls)
    integerise = rng.random() < 0.4
    _widen(rng, fn, integerise)
    lo, hi = WIDE_RANGE.get(cls, (-2, 3))
    if any(x in json_str(fn) for x in ('GenzCornerPeak', 'FunctionExpVar', 'FunctionInverseTransform', 'FunctionGShifted')):
        lo = max(lo, 0)
    if 'FunctionInverseTransform' in json_str(fn) or 'FunctionGShifted' in json_str(fn):
        hi = 1
    ipool = [[float(rng.randrange(lo, hi + 1)) for _ in range(d)] for _ in range(rng.choice([2, 3, 5]))]
    hpool = [[min(float(hi), rng.randrange(lo, hi + 1) + rng.choice([0.0, 0.5, 0.25])) for _ in range(d)] for _ in range(2)]
    use_f32 = rng.random() < 0.25
    override = cls in VEC_OVERRIDE
    ops = []
    for _ in range(rng.randrange(3, 11)):
        r = rng.random()
        ints = rng.random() < 0.7
        pool = ipool if ints else ipool + hpool
        if r < 0.25:
            p = list(rng.choice(pool))
            forms = (['int', 'npint', 'i32arr', 'tuple'] if ints else ['tuple', 'list', 'ndarray']) + (['f32', 'f32arr'] if use_f32 else [])
            ops.append(['single', p, rng.choice(forms)])
        elif r < 0.6:
            ps = [list(rng.choice(pool)) for _ in range(rng.randrange(1, 5))]
            forms = (['int64', 'int32', 'object', 'pyint', 'pyint', 'mixed'] if ints else ['mixed', 'ndarray', 'tuple']) + (['float32'] if use_f32 else [])
            ops.append(['batch', ps, rng.choice(forms)])
        elif r < 0.8:
            ps = [list(rng.choice(pool)) for _ in range(rng.randrange(1, 5))]
            forms = (['int64', 'int32'] if ints else ['float64']) + (['float32'] if use_f32 else [])
            ops.append(['vec', ps, rng.choice(forms)])
        elif r < 0.88 and override:
            p = list(rng.choice(pool))
            ops.append(['vec1', p, rng.choice((['i32arr'] if ints else ['ndarray']) + (['f32arr'] if use_f32 else []))])
        elif r < 0.94:
            ops.append(['reset'])
        else:
            ops.append(['size'])
    c = {'kind': 'cache', 'fn': fn, 'dim': d, 'ops': ops, 'pattern': 'dtype'}
    c['cform'] = rng.choice(['int', 'intarray']) if integerise else rng.choice(['list', 'ndarray'])
    return c


def json_str(x):
    import json
    return json.dumps(x)


def gen_xdim_case(rng, pattern=None, cls=None):
    """ONE object of a dimension-free class used for problems of different dimension, one after the other."""
    pattern = pattern or rng.choice(XPATTERNS)
    cls = cls or rng.choice(DIMFREE)
    fn, dom = gen_free_fn(rng, cls)
    d1, d2 = rng.sample([1, 2, 3, 4, 5], 2)
    P = lambda d, n: [[dy(rng, dom[0], dom[1]) for _ in range(d)] for _ in range(n)]
    p1, p2 = P(d1, rng.randrange(1, 4)), P(d2, rng.randrange(1, 4))
    f2 = rng.choice(['tuple', 'tuple', 'ndarray'])
    S = lambda p: ['single', list(p), 'tuple']
    B = lambda ps: ['batch', [list(p) for p in ps], f2]
    V = lambda ps: ['vec', [list(p) for p in ps]]
    c = {'kind': 'cache', 'fn': fn, 'dim': d1, 'pattern': pattern}
    if pattern == 'xdim-batch-batch':
        ops = [B(p1), B(p2), ['size']] + [S(p) for p in p2] + [V(p2), B(p1), ['size']]
    elif pattern == 'xdim-vec-batch':
        ops = [V(p1), B(p2), V(p2)] + [S(p) for p in p1] + [['size']]
    elif pattern == 'xdim-single-batch':
        ops = [S(p) for p in p1] + [B(p2), ['size'], B(p1), V(p1), ['size']]
    elif pattern == 'xdim-reset-between':
        ops = [B(p1), ['size'], ['reset'], B(p2), ['size']] + [S(p) for p in p2] + [['reset']] + [S(p) for p in p2] + [B(p2), ['size']]
    elif pattern == 'xdim-deact':
        ops = [B(p1), ['deact'], B(p2)] + [S(p) for p in p2] + [V(p2), B(p1)]
    else:   # two objects of the class: the first sees dimension d1, the twin d2, then crosswise
        c['fns'] = [fn, fn if rng.random() < 0.5 else gen_free_fn(rng, cls)[0]]
        ops = [B(p1), ['obj', 1], B(p2), ['size'], ['obj', 0], ['size'], B(p2), ['obj', 1], B(p1)] + [S(p) for p in p1] + [['size']]
    c['ops'] = ops
    return _arg_axes(rng, c)


INTEGRAL_CLASSES = ['ConstantValue', 'FunctionDiagonalDiscont', 'FunctionG', 'FunctionGShifted', 'FunctionLinear',
                    'FunctionMultilinear', 'FunctionPolynomial', 'Polynomial1d', 'LambdaFunction', 'GenzCornerPeak',
                    'GenzProductPeak', 'GenzOszillatory', 'GenzDiscontinious', 'GenzDiscontinious2', 'GenzC0',
                    'GenzGaussian', 'FunctionExpVar', 'FunctionShift', 'FunctionCompose', 'FunctionCustom',
                    'FunctionUQ2', 'FunctionUQ', 'FunctionUQShifted']
POLY_CLASSES = ('ConstantValue', 'FunctionLinear', 'FunctionMultilinear', 'FunctionPolynomial', 'Polynomial1d')
UNIT_CUBE_ONLY = ('FunctionDiagonalDiscont', 'FunctionG', 'FunctionGShifted')
SCIPY_QUAD = ('FunctionCustom', 'FunctionUQ2', 'FunctionUQ', 'FunctionUQShifted')
JUMP_QUAD = ('FunctionUQ2', 'FunctionUQ', 'FunctionUQShifted')   # library value = scipy adaptive quadrature ACROSS a jump


def gen_box(rng, d, lo, hi, degenerate=False):
    a, b = [], []
    for _ in range(d):
        x, y = dy(rng, lo, hi), dy(rng, lo, hi)
        while x == y:
            y = dy(rng, lo, hi)
        a.append(min(x, y)); b.append(max(x, y))
    if degenerate:
        k = rng.randrange(d)
        b[k] = a[k]                     # a box of zero width in one direction: every integral is 0
    return [a, b]


FREE_INTEGRAL = ('ConstantValue', 'FunctionExpVar', 'FunctionDiagonalDiscont', 'FunctionCompose', 'FunctionShift', 'FunctionCustom')
HIGH_DIM_REFERENCE = ('GenzCornerPeak', 'GenzProductPeak', 'GenzC0', 'GenzGaussian', 'FunctionExpVar', 'GenzOszillatory')
SEPARABLE = ('GenzProductPeak', 'GenzC0', 'GenzGaussian', 'FunctionExpVar')
HIGH_DIM_NUMERIC = ('FunctionExpVar', 'GenzCornerPeak', 'GenzProductPeak', 'GenzOszillatory', 'GenzGaussian', 'GenzC0', 'GenzDiscontinious')


def _has_expvar(spec):
    c, p = spec['cls'], spec.get('p', {})
    if c == 'FunctionExpVar':
        return True
    if c == 'FunctionShift':
        return _has_expvar(p['f'])
    if c == 'FunctionCompose':
        return any(_has_expvar(s) for s, _ in p['fs'])
    return False


def _fix_expvar_box(box):
    # the root singularity at 0 needs geometric refinement, unaffordable for a tensor rule in 3 and more dimensions
    a, b = box
    a = [max(x, 0.125) for x in a]
    b = [max(y, 0.25) for y in b]
    return [a, [y if y >= x else x + 0.125 for x, y in zip(a, b)]]


COMPANIONS = ['GenzGaussian', 'GenzDiscontinious', 'GenzC0', 'FunctionLinear', 'GenzOszillatory', 'GenzCornerPeak', 'GenzProductPeak',
              'FunctionMultilinear', 'ConstantValue', 'FunctionExpVar']


def _int_arg_axes(rng, c):
    """The caller's argument objects: box corners and points as lists / tuples / float64 arrays / integer arrays, ONE object per
    distinct corner reused by all calls of the history; constructor sequences as lists or float64 arrays."""
    c['bform'] = rng.choice(['list', 'tuple', 'ndarray', 'ndarray', 'ndarray', 'intarray'])
    c['cform'] = rng.choice(['list', 'ndarray'])
    if rng.random() < 0.15:
        c['scribble'] = True
    return c


def gen_integral_case(rng, cls=None, multidim=None, force_d=None):
    """A HISTORY on one object: evaluations, then analytic integrals over several boxes (for dimension-free classes of
    different dimension; boxes sharing the lower or the upper corner; a repeated box; a degenerate box), then the
    evaluations again."""
    cls = cls or rng.choice(INTEGRAL_CLASSES)
    d = rng.choice([1, 2, 2, 2, 3])
    highdim = False
    if cls in POLY_CLASSES and cls != 'Polynomial1d' and rng.random() < 0.35:
        d = rng.choice([4, 5, 6, 7, 8])                 # reference = the formal integral of the Coq model (no quadrature)
    elif cls in HIGH_DIM_REFERENCE and (force_d or rng.random() < 0.3):
        # 5..8 dimensions: reference = exact Coq model (GenzCornerPeak), product of one-variable quadratures of the eval of a
        # fresh instance (separable classes), product of complex one-variable integrals (GenzOszillatory)
        d = force_d or rng.choice([5, 6, 7, 8])
        highdim = True
    elif cls in HIGH_DIM_NUMERIC and rng.random() < 0.12:
        d = 4
    if cls in ('Polynomial1d', 'LambdaFunction'):
        d = 1
    if cls == 'FunctionUQ2':
        d = 2
    if cls in ('FunctionUQ', 'FunctionUQShifted'):
        d = 3
    if cls == 'FunctionCustom':
        d = rng.choice([2, 2, 3])                       # the base-class quadrature exists for 2 and 3 dimensions only
    if d == 3 and cls not in POLY_CLASSES + ('FunctionUQ', 'FunctionUQShifted', 'FunctionCustom', 'FunctionExpVar',
                                             'FunctionDiagonalDiscont', 'FunctionG') and rng.random() < 0.6:
        d = 2
    free = cls in FREE_INTEGRAL and not force_d and (multidim or (multidim is None and rng.random() < 0.5))
    if free:
        fn, dom = gen_free_fn(rng, cls, for_integral=True)
        dims = rng.sample([2, 3], 2) if cls == 'FunctionCustom' else rng.sample([1, 2, 3, 4], rng.choice([2, 2, 3]))
        if cls == 'FunctionDiagonalDiscont':
            dims = rng.sample([1, 2, 3], 2)
    else:
        fn, dom = gen_fn(rng, d, cls, for_integral=True)
        dims = [d]
    if highdim and not free:
        if cls == 'GenzCornerPeak':
            fn['p']['coeffs'] = [rng.choice([0.25, 0.5, 1.0]) for _ in range(d)]       # keeps the inclusion-exclusion well conditioned
        lat = [0.0, 0.5, 1.0] if cls != 'FunctionExpVar' else [0.25, 0.5, 1.0]
        a = [rng.choice(lat[:2]) for _ in range(d)]
        b = [rng.choice([y for y in lat if y > x]) for x in a]
        pts = [[dy(rng, 0.0, 1.0) for _ in range(d)] for _ in range(2)]
        return _int_arg_axes(rng, {'kind': 'integral', 'fn': fn, 'dim': d, 'boxes': [[a, b]] + ([[[0.0 if cls != 'FunctionExpVar' else 0.25] * d, [1.0] * d]] if rng.random() < 0.3 else []),
                                   'points': pts})
    boxes = []
    for k in dims:
        if cls in UNIT_CUBE_ONLY:
            bs = [[[0.0] * k, [1.0] * k]]
        else:
            lo, hi = dom
            if cls == 'FunctionShift':
                lo, hi = 0.0, 1.0
            nb = 1 if (k >= 3 or len(dims) > 1) else 2
            bs = [gen_box(rng, k, lo, hi, degenerate=rng.random() < 0.08) for _ in range(nb)]
            r = rng.random()
            if r < 0.25 and k <= 2:
                a0, b0 = bs[0]                      # same lower corner, another upper corner (and vice versa)
                b1 = [y if rng.random() < 0.5 else min(hi, y + 0.25) for y in b0]
                bs.append([list(a0), b1] if b1 != b0 else [[max(lo, x - 0.25) for x in a0], list(b0)])
            elif r < 0.4 and k <= 2:
                bs.append([[0.0] * k, [1.0] * k])
            if _has_expvar(fn) and k >= 3:
                bs = [_fix_expvar_box(bx) for bx in bs]
        boxes += bs
    if len(boxes) > 1 and rng.random() < 0.35 and len(boxes[0][0]) <= 2:
        boxes.append([list(boxes[0][0]), list(boxes[0][1])])          # the first box once more, at the end of the history
    pts = [[dy(rng, dom[0], dom[1]) for _ in range(k)] for k in dims for _ in range(3 if len(dims) == 1 else 2)]
    c = {'kind': 'integral', 'fn': fn, 'dim': dims[0], 'boxes': boxes, 'points': pts}
    if len(dims) == 1 and dims[0] <= 3 and cls not in UNIT_CUBE_ONLY + SCIPY_QUAD and rng.random() < 0.5:
        # other functions integrated over the SAME corner objects, after the function of the case
        c['companions'] = [gen_fn(rng, dims[0], rng.choice(COMPANIONS), for_integral=True)[0] for _ in range(rng.choice([1, 1, 2]))]
    return _int_arg_axes(rng, c)


# ------------------------------------------------------------------------------------------------ implementation workers
def _norm_value(v):
    """What __call__ does with a raw eval result: scalar -> [v]; sequence -> list of floats."""
    import numpy as np
    if np.isscalar(v):
        return [float(v)]
    return [float(x) for x in np.asarray(v).ravel()]


F32_FORMS = ('f32', 'f32arr', 'float32')
INT_FORMS = ('int', 'npint', 'i32arr', 'intarray', 'int32', 'int64', 'pyint', 'object')


def _as_form(np, pts, form, d, single):
    """The caller's container and number type for a point / a batch of points. Integer forms are generated for integral values only."""
    if single:
        if form == 'list': return list(pts)
        if form == 'ndarray': return np.array(pts, dtype=float)
        if form == 'npfloat': return tuple(np.float64(x) for x in pts)
        if form == 'int': return tuple(int(x) for x in pts)
        if form == 'npint': return tuple(np.int64(int(x)) for x in pts)
        if form == 'i32arr': return np.array([int(x) for x in pts], dtype=np.int32)
        if form == 'f32': return tuple(np.float32(x) for x in pts)
        if form == 'f32arr': return np.array(pts, dtype=np.float32)
        return tuple(pts)
    if form == 'ndarray':
        return np.array(pts, dtype=float).reshape((len(pts), d))
    if form in ('intarray', 'int64'):
        return np.array([[int(x) for x in p] for p in pts], dtype=np.int64).reshape((len(pts), d))
    if form == 'int32':
        return np.array([[int(x) for x in p] for p in pts], dtype=np.int32).reshape((len(pts), d))
    if form == 'float32':
        return np.array(pts, dtype=np.float32).reshape((len(pts), d))
    if form == 'object':
        return np.array([[int(x) for x in p] for p in pts], dtype=object).reshape((len(pts), d))
    if form == 'pyint':
        return [tuple(int(x) for x in p) for p in pts]
    if form == 'mixed':                      # python ints and floats in one batch (integral coordinates of every other point as int)
        return [tuple(int(x) if (j % 2 and float(x).is_integer()) else float(x) for x in p) for j, p in enumerate(pts)]
    if form == 'tot':
        return tuple(tuple(p) for p in pts)
    return [tuple(p) if form == 'tuple' else list(p) for p in pts]


def case_tol(case):
    """float32 points are evaluated in single precision by the numpy overrides (and cached in that precision)"""
    for op in case['ops']:
        if op[0] in ('single', 'batch', 'vec', 'vec1') and len(op) > 2 and op[2] in F32_FORMS:
            return (1e-5, 1e-6)
    return (RTOL, ATOL)


def _key(p):
    return tuple(float(x) + 0.0 for x in p)


def _op_points(op):
    k = op[0]
    if k == 'single': return [op[1]]
    if k in ('batch', 'vec'): return op[1]
    if k == 'vec1': return [op[1]]
    if k == 'vecn': return [p for blk in op[1] for p in blk]
    return []


def _exc_record(e):
    import traceback
    tb = traceback.extract_tb(e.__traceback__)
    where = ''
    for fr in reversed(tb):
        if 'sparseSpACE' in fr.filename:
            where = '%s:%d' % (fr.filename.split('sparseSpACE/')[-1], fr.lineno)
            break
    return {'st': 'exc', 'exc': type(e).__name__, 'where': where, 'msg': str(e)[:120]}


def _calls_check(cls):
    import inspect
    import sparseSpACE.Function as F
    if cls.eval_vectorized is F.Function.eval_vectorized:
        return False
    try:
        return 'check_vectorization' in inspect.getsource(cls.eval_vectorized)
    except Exception:
        return cls.__name__ in VEC_OVERRIDE and cls.__name__ != 'FunctionLinear'


def impl_cache(case):
    import numpy as np
    specs = case_specs(case)
    watch = Watch()
    cform = case.get('cform', 'list')
    try:
        objs = [build(s, watch, cform) for s in specs]         # all objects of the case are alive during the whole history
        if 'GenzProductPeak' in json_str(specs) and cform in ('int', 'intarray'):
            objs[0].eval(tuple(0.5 for _ in range(case['dim'])))      # integer coefficients: coeffs ** (-2) is evaluated lazily
    except Exception as e:
        return {'build_failed': _exc_record(e), 'cform': cform}
    scribble = bool(case.get('scribble'))
    cur = 0
    out = []
    args = {}                  # ARGUMENT OBJECTS ARE REUSED: the same points in the same form are the same Python object

    def arg(kind, form, pts, make):
        key = (kind, form, repr(pts))
        if key not in args:
            args[key] = watch.add('%s-argument(%s)' % (kind, form), make())
        return args[key]

    def val(r):
        rec = {'st': 'ok', 'shape': list(np.shape(r)), 'vals': [float(x) for x in np.asarray(r, dtype=float).ravel()]}
        if scribble and isinstance(r, np.ndarray) and r.size and r.flags.writeable:
            r[...] = SENTINEL              # the caller overwrites the array it got back: no later result may change
            rec['scribbled'] = True
        return rec
    import random as _random
    rngm = _random.Random(repr(case['ops'])[:300])
    probe = next((p_ for op_ in case['ops'] for p_ in _op_points(op_)), None)

    def observers():
        obs = []
        for o_ in objs:
            try:
                obs.append(_norm_value(o_.eval(tuple(probe))) if probe is not None else None)
            except Exception as e_:
                obs.append(type(e_).__name__)
            obs.append(sorted([[float(x) + 0.0 for x in kk], _norm_value(vv)] for kk, vv in zip(o_.get_f_dict_points(), o_.get_f_dict_values())))
            obs.append(int(o_.output_length()))
        return obs
    for op in case['ops']:
        k = op[0]
        f = objs[cur]
        rec = {}
        try:
            if k == 'single':
                rec = val(f(arg('point', op[2], op[1], lambda: _as_form(np, op[1], op[2], len(op[1]), True))))
            elif k == 'batch':
                d = len(op[1][0]) if op[1] else case['dim']
                rec = val(f(arg('points', op[2], op[1], lambda: _as_form(np, op[1], op[2], d, False))))
            elif k == 'vec':
                d = len(op[1][0]) if op[1] else case['dim']      # the same array object as a batch call in the same array form
                vform = op[2] if len(op) > 2 else 'ndarray'
                rec = val(f.eval_vectorized(arg('points', {'float64': 'ndarray', 'int64': 'intarray'}.get(vform, vform), op[1],
                                                lambda: _as_form(np, op[1], {'float64': 'ndarray'}.get(vform, vform), d, False))))
            elif k == 'vec1':                                    # a single point as a 1-d array, directly to an eval_vectorized override
                rec = val(f.eval_vectorized(arg('point', op[2], op[1], lambda: _as_form(np, op[1], op[2], len(op[1]), True))))
            elif k == 'vecn':
                rec = val(f.eval_vectorized(arg('points', 'ndarray3', op[1], lambda: np.array(op[1], dtype=float))))
            elif k == 'reset':
                r = f.reset_dictionary(); rec = {'st': 'ok', 'ret': repr(r)}
            elif k == 'deact':
                r = f.deactivate_caching(); rec = {'st': 'ok', 'ret': repr(r)}
            elif k == 'size':
                rec = {'st': 'ok', 'size': int(f.get_f_dict_size())}
            elif k == 'debug':
                f.debug = bool(op[1]); rec = {'st': 'ok'}
            elif k == 'obj':
                cur = int(op[1]); f = objs[cur]; rec = {'st': 'ok'}
        except Exception as e:  # exceptions are observables; the sequence goes on
            rec = _exc_record(e)
        changed = watch.check()
        if changed:
            rec['mutated'] = changed
        if case.get('caller_mutates') and rngm.random() < 0.3:
            # axis (j): the CALLER edits in place an object it passed earlier (without passing it again), then observes
            cand = [it for it in watch.items if isinstance(it[1], (list, np.ndarray)) and len(it[1]) and
                    (not isinstance(it[1], np.ndarray) or it[1].dtype.kind == 'f') and not isinstance(it[1][0], (list, tuple))]
            if cand:
                it = cand[rngm.randrange(len(cand))]
                pre = observers()
                old0 = it[1].flat[0] if isinstance(it[1], np.ndarray) else it[1][0]
                if isinstance(it[1], np.ndarray):
                    it[1].flat[0] = old0 + 1.0
                else:
                    it[1][0] = old0 + 1.0
                post = observers()
                if pre != post:
                    rec['alias'] = {'argument': it[0], 'container': Watch.snap(it[1])[0], 'before': str(pre)[:200], 'after': str(post)[:200]}
                if it[0].startswith('constructor-argument'):
                    if isinstance(it[1], np.ndarray):
                        it[1].flat[0] = old0          # the caller restores its sequence (the history goes on with the function of the case)
                    else:
                        it[1][0] = old0
                else:
                    for k_ in [k_ for k_, o_ in args.items() if o_ is it[1]]:
                        del args[k_]                  # a point object the caller has edited is not handed over again
                it[2] = Watch.snap(it[1])
                rec['caller_mutated'] = it[0]
        rec['obj'] = cur
        rec['size_after'] = int(f.get_f_dict_size())
        rec['sizes'] = [int(o.get_f_dict_size()) for o in objs]
        keys = f.get_f_dict_points()
        vals = f.get_f_dict_values()
        rec['dict'] = sorted([[float(x) + 0.0 for x in kk], _norm_value(vv)] for kk, vv in zip(keys, vals))
        out.append(rec)
    # direct evaluation tables, per object: scalar eval and (row-wise) eval_vectorized of FRESH instances that have never
    # seen another point (a fresh instance per point; per dimension when the case mentions many points)
    cur = 0
    wanted = [dict() for _ in specs]
    for op in case['ops']:
        if op[0] == 'obj':
            cur = int(op[1])
        for p in _op_points(op):
            wanted[cur].setdefault(_key(p), p)
    tables, vtables = [], []
    for oi, spec in enumerate(specs):
        many = len(wanted[oi]) > 64
        shared = {}
        table, vtable = [], []
        for key, p in wanted[oi].items():
            if many:
                g = shared.get(len(p)) or shared.setdefault(len(p), build(spec))
                gv = shared.get(('v', len(p))) or shared.setdefault(('v', len(p)), build(spec))
            else:
                g, gv = build(spec), build(spec)
            try:
                ev = _norm_value(g.eval(tuple(p)))
            except Exception as e:
                ev = ['exc', type(e).__name__]
            try:
                vv = _norm_value(np.asarray(gv.eval_vectorized(np.array([p], dtype=float))))
            except Exception as e:
                vv = ['exc', type(e).__name__]
            table.append([list(key), ev])
            vtable.append([list(key), vv])
        tables.append(table)
        vtables.append(vtable)
    import sparseSpACE.Function as F
    return {'olen': int(objs[0].output_length()), 'olens': [int(o.output_length()) for o in objs], 'steps': out,
            'table': tables[0], 'tables': tables, 'vtables': vtables,
            'has_vec_override': type(objs[0]).eval_vectorized is not F.Function.eval_vectorized,
            'calls_check_vectorization': _calls_check(type(objs[0]))}


def _breaks(spec, d, a, b):
    """Per-dimension break points (kinks / jumps of the integrand) for the composite Gauss-Legendre rule."""
    c, p = spec['cls'], spec.get('p', {})
    br = [[] for _ in range(d)]
    if c in ('GenzProductPeak', 'GenzC0', 'GenzGaussian', 'FunctionGeneralizedNormal'):
        br = [[m] for m in p['mid']]
    elif c in ('GenzDiscontinious', 'GenzDiscontinious2'):
        br = [[m] for m in p['border']]
    elif c == 'FunctionG':
        br = [[0.5] for _ in range(d)]
    elif c == 'FunctionGShifted':
        br = [[0.3, 0.8] for _ in range(d)]
    elif c == 'FunctionExpVar':
        br = [[b[k] * 2.0 ** -j for j in range(1, 25)] if a[k] == 0.0 else [] for k in range(d)]
    elif c in ('FunctionUQ', 'FunctionUQ2'):
        br[1] = [0.0]
    elif c == 'FunctionUQShifted':
        br[1] = [-0.221413]
    elif c == 'FunctionShift':
        inner = _breaks(p['f'], d, a, b)
        br = [[x - p['shift'][k] for x in inner[k]] for k in range(d)]
    elif c == 'FunctionCompose':
        for s, _ in p['fs']:
            for k, x in enumerate(_breaks(s, d, a, b)):
                br[k] += x
    return br


def _gl_box(f, a, b, breaks, n):
    import numpy as np
    from scipy.special import roots_legendre
    xs, ws = roots_legendre(n)
    per = []
    for k in range(len(a)):
        cuts = sorted(set([a[k], b[k]] + [x for x in breaks[k] if a[k] < x < b[k]]))
        P, W = [], []
        for lo, hi in zip(cuts[:-1], cuts[1:]):
            P += list((hi - lo) / 2 * xs + (hi + lo) / 2)
            W += list((hi - lo) / 2 * ws)
        if len(cuts) < 2:                       # zero width
            P, W = [a[k]], [0.0]
        per.append((P, W))
    tot = 0.0
    for idx in itertools.product(*[range(len(p[0])) for p in per]):
        x = tuple(per[k][0][i] for k, i in enumerate(idx))
        w = 1.0
        for k, i in enumerate(idx):
            w *= per[k][1][i]
        tot = tot + w * np.asarray(f.eval(x), dtype=float)
    return np.atleast_1d(tot)


def _midpoint_box(f, a, b, n):
    import numpy as np
    grids = [[a[k] + (b[k] - a[k]) * (i + 0.5) / n for i in range(n)] for k in range(len(a))]
    w = 1.0
    for k in range(len(a)):
        w *= (b[k] - a[k]) / n
    tot = 0.0
    for x in itertools.product(*grids):
        tot = tot + w * np.asarray(f.eval(x), dtype=float)
    return np.atleast_1d(tot)


def _component_specs(spec):
    if spec['cls'] == 'FunctionCompose':
        return [s for s, _ in spec['p']['fs']]
    if spec['cls'] == 'FunctionShift':
        return []
    return []


def _analytic(f, a, b, scribble=False):
    """getAnalyticSolutionIntegral(a, b) with the corner objects as given (NOT copied)."""
    import numpy as np
    try:
        r = f.getAnalyticSolutionIntegral(a, b)
    except Exception as e:
        return {'st': 'exc', 'exc': type(e).__name__, 'msg': str(e)[:120]}
    if r is None:
        return {'st': 'none'}
    try:
        vals = [float(x) for x in np.atleast_1d(np.asarray(r, dtype=float)).ravel()]
    except Exception as e:
        return {'st': 'exc', 'exc': 'NotANumber:' + type(e).__name__, 'msg': repr(r)[:120]}
    if scribble and isinstance(r, np.ndarray) and r.ndim and r.size and r.flags.writeable:
        r[...] = SENTINEL
    return {'st': 'ok', 'vals': vals}


def _nodes(a, b, breaks, n, midpoint=False):
    """Tensor quadrature nodes and weights (composite Gauss-Legendre with break points, or the midpoint rule)."""
    import numpy as np
    from scipy.special import roots_legendre
    per = []
    for k in range(len(a)):
        if midpoint:
            P = [a[k] + (b[k] - a[k]) * (i + 0.5) / n for i in range(n)]
            W = [(b[k] - a[k]) / n] * n
        else:
            xs, ws = roots_legendre(n)
            cuts = sorted(set([a[k], b[k]] + [x for x in breaks[k] if a[k] < x < b[k]]))
            P, W = [], []
            for lo, hi in zip(cuts[:-1], cuts[1:]):
                P += list((hi - lo) / 2 * xs + (hi + lo) / 2)
                W += list((hi - lo) / 2 * ws)
            if len(cuts) < 2:                   # zero width
                P, W = [a[k]], [0.0]
        per.append((np.array(P, dtype=float), np.array(W, dtype=float)))
    mesh = np.meshgrid(*[p for p, _ in per], indexing='ij')
    wm = np.meshgrid(*[w for _, w in per], indexing='ij')
    P = np.stack([m.ravel() for m in mesh], axis=-1)
    W = np.ones(P.shape[0])
    for w in wm:
        W = W * w.ravel()
    return P, W


def _quad_through(f, P, W, path, olen):
    """Quadrature of the evaluations of object f obtained through its vectorised path / its batch call."""
    import numpy as np
    if path == 'vec':
        V = np.asarray(f.eval_vectorized(P), dtype=float).reshape((P.shape[0], olen))
    else:
        V = np.asarray(f([tuple(float(x) for x in row) for row in P]), dtype=float).reshape((P.shape[0], olen))
    return [float(x) for x in np.atleast_1d(W @ V)]


def _numeric(spec, f, a, b, d):
    """Numerical integral of the SCALAR eval of f (a fresh instance) + error estimate from two orders."""
    import numpy as np
    if spec['cls'] == 'FunctionDiagonalDiscont':
        n = {1: 2000, 2: 300, 3: 60, 4: 16}[d]
        v = _midpoint_box(f, a, b, n)
        return {'vals': [float(x) for x in v], 'err': 2e-2, 'rough': True, 'n': n, 'midpoint': True}
    n1, n2 = {1: (40, 56), 2: (28, 40), 3: (12, 18), 4: (7, 10)}[d]
    br = _breaks(spec, d, a, b)
    if max(len(x) for x in br) > 4:
        n1, n2 = 8, 12        # many geometric pieces (ExpVar at 0): low order per piece suffices
    if d >= 4:
        br = [x[:1] for x in br]
    v1 = _gl_box(f, a, b, br, n1)
    v2 = _gl_box(f, a, b, br, n2)
    return {'vals': [float(x) for x in v2], 'err': float(np.max(np.abs(v1 - v2))), 'rough': False, 'n': n2, 'midpoint': False}


def _numeric_highdim(spec, evalrows, a, b, d):
    """Reference for the integral in 5 and more dimensions without a tensor rule.
    evalrows(P) -> values of the function at the rows of the (n, d) array P (scalar eval of a fresh instance, or the history
    object's eval_vectorized).
      separable classes f(x) = prod_d g_d(x_d):  int f = prod_d int f(r | x_d) dx_d / f(r)^(d-1)  (r = centre of the box),
        separability itself is spot-checked at random points of the box;
      GenzOszillatory: Re( e^{i 2 pi offset} prod_d int_a^b e^{i c_d x} dx ), the identity cos(s + sum) = Re(e^{is} prod e^{i c x})
        is spot-checked against the evaluations."""
    import numpy as np
    from scipy.special import roots_legendre
    import random as _random
    rr = _random.Random(repr((spec, a, b)))
    a_, b_ = np.array(a, dtype=float), np.array(b, dtype=float)
    X = np.array([[a[k] + (b[k] - a[k]) * rr.random() for k in range(d)] for _ in range(6)])
    FX = np.asarray(evalrows(X), dtype=float).ravel()
    if spec['cls'] == 'GenzOszillatory':
        cs, off = [float(c) for c in spec['p']['coeffs']], float(spec['p']['offset'])
        want = np.real(np.exp(1j * 2 * math.pi * off) * np.prod(np.exp(1j * np.array(cs) * X), axis=1))
        if not np.allclose(FX, want, rtol=1e-9, atol=1e-12):
            return {'vals': [float('nan')], 'err': float('inf'), 'rough': False, 'n': 0, 'midpoint': False, 'highdim': 'identity-check-failed'}
        vals = []
        for n in (24, 32):
            xs, ws = roots_legendre(n)
            tot = np.exp(1j * 2 * math.pi * off)
            for k in range(d):
                t = (b[k] - a[k]) / 2 * xs + (b[k] + a[k]) / 2
                tot = tot * np.sum((b[k] - a[k]) / 2 * ws * np.exp(1j * cs[k] * t))
            vals.append(float(np.real(tot)))
        return {'vals': [vals[1]], 'err': abs(vals[0] - vals[1]), 'rough': False, 'n': 32, 'midpoint': False, 'highdim': 'complex-product'}
    r = (a_ + b_) / 2
    fr = float(np.asarray(evalrows(r.reshape(1, d)), dtype=float).ravel()[0])
    if not (math.isfinite(fr) and abs(fr) > 1e-300):
        return None
    lines = np.repeat(r.reshape(1, d), 6 * d, axis=0)
    for j in range(6):
        for k in range(d):
            lines[j * d + k, k] = X[j, k]
    FL = np.asarray(evalrows(lines), dtype=float).ravel().reshape(6, d)
    if not np.allclose(FX * fr ** (d - 1), np.prod(FL, axis=1), rtol=1e-9, atol=0.0):
        return {'vals': [float('nan')], 'err': float('inf'), 'rough': False, 'n': 0, 'midpoint': False, 'highdim': 'not-separable'}
    br = _breaks(spec, d, a, b)
    vals = []
    for n in (40, 56):
        xs, ws = roots_legendre(n)
        tot = 1.0
        for k in range(d):
            cuts = sorted(set([a[k], b[k]] + [x for x in br[k] if a[k] < x < b[k]]))
            ik = 0.0
            for lo, hi in zip(cuts[:-1], cuts[1:]):
                t = (hi - lo) / 2 * xs + (hi + lo) / 2
                P = np.repeat(r.reshape(1, d), n, axis=0)
                P[:, k] = t
                ik += float(np.sum((hi - lo) / 2 * ws * np.asarray(evalrows(P), dtype=float).ravel()))
            tot *= ik
        vals.append(tot / fr ** (d - 1))
    return {'vals': [vals[1]], 'err': abs(vals[0] - vals[1]), 'rough': False, 'n': 56, 'midpoint': False, 'highdim': 'separable-product'}


def _point_record(f, spec, p, P=None):
    """eval of a fresh instance; single and batch call on the history object f (P: the caller's point object, reused)"""
    import numpy as np
    P = tuple(p) if P is None else P
    try:
        ev = _norm_value(build(spec).eval(tuple(p)))
        one = [float(x) for x in np.asarray(f(P), dtype=float).ravel()]
        bat = [float(x) for x in np.asarray(f([P]), dtype=float).ravel()]
        return {'st': 'ok', 'eval': ev, 'call': one, 'batch': bat}
    except Exception as e:
        return {'st': 'exc', 'exc': type(e).__name__}


def impl_integral(case):
    import numpy as np
    spec = case['fn']
    watch = Watch()
    cform, bform, scribble = case.get('cform', 'list'), case.get('bform', 'list'), bool(case.get('scribble'))
    f = build(spec, watch, cform)                      # THE object of the history
    cspecs = case.get('companions', [])
    comps = [build(s_, watch, cform) for s_ in cspecs]   # other functions integrated over the SAME corner objects
    olen = int(f.output_length())
    res = {'boxes': [], 'points': [], 'points_after': [], 'olen': olen, 'mutated_by_evaluation': []}
    shared = {}

    def corner(v, what):
        """one object per distinct corner / point value, reused by every call of the history"""
        key = (what, tuple(v))
        if key not in shared:
            if bform == 'ndarray' or (bform == 'intarray' and not _integral_pt(v)):
                o = np.array(v, dtype=float)
            elif bform == 'intarray':
                o = np.array([int(x) for x in v], dtype=int)
            else:
                o = tuple(v) if (bform == 'tuple' or what == 'point') else list(v)
            shared[key] = watch.add('%s(%s)' % (what, bform), o)
        return shared[key]
    for p in case['points']:
        res['points'].append(_point_record(f, spec, p, corner(p, 'point')))
    res['mutated_by_evaluation'] += watch.check()
    for a, b in case['boxes']:
        d = len(a)
        exact_only = (spec['cls'] in POLY_CLASSES and d >= 4) or (spec['cls'] == 'GenzCornerPeak' and d >= 5)
        fresh = build(spec)
        A, B = corner(a, 'box-corner'), corner(b, 'box-corner')
        rec = {'analytic': _analytic(f, A, B, scribble), 'components': [], 'through': {}, 'companions': []}
        rec['mutated'] = watch.check()
        for g, gs in zip(comps, cspecs):
            if len(a) != case['dim']:
                continue
            cr = {'cls': gs['cls'], 'shared': _analytic(g, A, B, scribble)}
            cr['mutated'] = watch.check()
            cr['fresh'] = _analytic(build(gs), list(a), list(b))
            rec['companions'].append(cr)
        rec['analytic_fresh'] = _analytic(build(spec), list(a), list(b))
        a, b = list(a), list(b)
        if d >= 5 and not exact_only:
            rec['numeric'] = _numeric_highdim(spec, lambda P: [fresh.eval(tuple(float(x) for x in row)) for row in P], a, b, d)
            if rec['numeric'] is not None and math.isfinite(rec['numeric']['err']):
                try:        # the same reference through the history object's vectorised evaluation
                    th = _numeric_highdim(spec, lambda P: np.asarray(f.eval_vectorized(P), dtype=float).reshape((P.shape[0], olen))[:, 0], a, b, d)
                    rec['through']['vec'] = {'st': 'ok', 'vals': th['vals'], 'npoints': 56 * d}
                except Exception as e:
                    rec['through']['vec'] = _exc_record(e)
            res['boxes'].append(rec)
            continue
        rec['numeric'] = None if exact_only else _numeric(spec, fresh, a, b, d)
        if spec['cls'] == 'FunctionCompose' and not exact_only:
            for s, _w in spec['p']['fs']:
                g = build(s)
                rec['components'].append({'cls': s['cls'], 'analytic': _analytic(g, a, b), 'numeric': _numeric(s, g, a, b, d)})
        if rec['numeric'] is not None and not (d == 4 and rec['numeric']['midpoint']):
            # the same rule through the history object's vectorised evaluation and (small rules) its batch call
            nu = rec['numeric']
            P, W = _nodes(a, b, _breaks(spec, d, a, b) if d < 4 else [x[:1] for x in _breaks(spec, d, a, b)], nu['n'], nu['midpoint'])
            for path in ('vec', 'batch'):
                if path == 'batch' and P.shape[0] > 5000:
                    continue
                try:
                    rec['through'][path] = {'st': 'ok', 'vals': _quad_through(f, P, W, path, olen), 'npoints': int(P.shape[0])}
                except Exception as e:
                    rec['through'][path] = _exc_record(e)
        res['boxes'].append(rec)
    for p in case['points']:
        res['points_after'].append(_point_record(f, spec, p, corner(p, 'point')))
    res['mutated_by_evaluation'] += watch.check()
    return res


# ------------------------------------------------------------------------------------------------ comparison helpers
def close(x, y, rtol=RTOL, atol=ATOL):
    x, y = float(x), float(y)
    if math.isnan(x) or math.isnan(y):
        return False
    return abs(x - y) <= rtol * max(abs(x), abs(y)) + atol


def close_list(xs, ys, rtol=RTOL, atol=ATOL):
    return len(xs) == len(ys) and all(close(x, y, rtol, atol) for x, y in zip(xs, ys))


def finite(xs):
    return all(isinstance(x, (int, float)) and math.isfinite(x) for x in xs)


def wire_op(op):
    k = op[0]
    if k == 'single':
        return [0, [sx.rat(x) for x in op[1]]]
    if k == 'batch':
        return [1, [[sx.rat(x) for x in p] for p in op[1]]]
    if k == 'vec':
        return [2, [[sx.rat(x) for x in p] for p in op[1]]]
    if k == 'debug':
        return [6, 1 if op[1] else 0]
    return [{'reset': 3, 'deact': 4, 'size': 5}[k]]


def wire_ops(ops):
    return [wire_op(op) for op in ops if op[0] not in ('obj', 'vecn', 'vec1', 'debug')]


def project_ops(case):
    """Per object: the indices (into case['ops']) of the operations addressed to it that the machine models know
    (everything but the object switch and the nested-array call, which does not touch the machine state)."""
    n = len(case_specs(case))
    per = [[] for _ in range(n)]
    cur = 0
    for i, op in enumerate(case['ops']):
        if op[0] == 'obj':
            cur = int(op[1])
        elif op[0] not in ('vecn', 'vec1'):
            per[cur].append(i)
    return per


def qf(v):
    return float(sx.q(v))


def np_prod(xs):
    r = 1.0
    for x in xs:
        r *= float(x)
    return r


def cmp_step(op, m, i, olen, tol=(RTOL, ATOL)):
    """Compare one step of the model (decoded wire) with the implementation record. Returns list of (observable, detail)."""
    mres, msize, mdict, mcache = m[:4]
    diffs = []
    tag = mres[0]
    if tag == -1:
        if not (i['st'] == 'exc' and i['exc'] in EXC_OF_ERR[mres[1]]):
            diffs.append(('exception', 'model raises %s, implementation: %s' % (EXC_OF_ERR[mres[1]], _short(i))))
    elif i['st'] != 'ok':
        diffs.append(('exception', 'implementation raises %s at %s (%s), model returns' % (i['exc'], i.get('where'), i.get('msg'))))
    elif tag in (0, 1, 2):
        rows = [[qf(x) for x in mres[1]]] if tag == 0 else [[qf(x) for x in r] for r in mres[1]]
        flat = [x for r in rows for x in r]
        if tag == 0:
            want_shape = [[olen]]
        elif tag == 1:
            want_shape = [[len(rows), olen]]
        else:   # direct eval_vectorized: generic implementation returns (n, olen); overrides of scalar functions (n,)
            want_shape = [[len(rows), olen]] + ([[len(rows)]] if olen == 1 else [])
        if i['shape'] not in want_shape:
            diffs.append(('shape', 'implementation shape %s, expected %s' % (i['shape'], want_shape[0])))
        elif not close_list(flat, i['vals'], *tol):
            diffs.append(('values', 'implementation %s, model (= direct eval) %s' % (i['vals'][:6], flat[:6])))
    elif tag == 3:
        if op[0] in ('reset', 'deact') and i.get('ret') != 'None':
            diffs.append(('return', 'expected None, got %s' % i.get('ret')))
    elif tag == 5:
        if mcache and i.get('size') != mres[1]:
            diffs.append(('counter', 'get_f_dict_size() = %s, model %s' % (i.get('size'), mres[1])))
    if mcache:
        if i['size_after'] != msize:
            diffs.append(('counter', 'size after op: implementation %s, model %s' % (i['size_after'], msize)))
        md = sorted([[qf(x) for x in k], [qf(x) for x in v]] for k, v in mdict)
        ik = [k for k, _ in i['dict']]
        if [k for k, _ in md] != ik:
            diffs.append(('dict-keys', 'implementation %s, model %s' % (ik[:5], [k for k, _ in md][:5])))
        elif not all(close_list(mv, iv, *tol) for (_, mv), (_, iv) in zip(md, i['dict'])):
            diffs.append(('dict-values', 'cached values differ from direct eval'))
    return diffs


def _short(i):
    return ('%s at %s' % (i['exc'], i.get('where'))) if i['st'] == 'exc' else 'returns shape %s' % (i.get('shape'),)


def _bucket(n):
    for lim, name in ((0, '0'), (1, '1'), (5, '2-5'), (63, '6-63'), (199, '64-199'), (1023, '200-1023'), (1024, '1024')):
        if n <= lim:
            return name
    return '1025+'


def oracle_cache(case, r):
    """The property's predicate on the implementation alone. Returns list of (kind, sig, step, detail).
    Reference values: the scalar eval of FRESH instances (r['tables'], one per object of the case)."""
    specs = case_specs(case)
    tol = case_tol(case)
    olens = r.get('olens') or [r['olen']] * len(specs)
    tabs = [{tuple(k): v for k, v in t} for t in (r.get('tables') or [r['table']])]
    bad = []
    seen = [set() for _ in specs]
    on = [True] * len(specs)
    dims_seen = [set() for _ in specs]
    writer = [dict() for _ in specs]
    cur = 0
    for oi, tab in enumerate(tabs):
        if any(v and v[0] != 'exc' and len(v) != olens[oi] for v in tab.values()):
            # the declared output length is wrong: every call fails; report that and nothing else
            c2 = 0
            for step, op in enumerate(case['ops']):
                if op[0] == 'obj':
                    c2 = int(op[1])
                pts = _op_points(op)
                if c2 == oi and pts:
                    return [('declared-output-length-wrong', {'cls': specs[oi]['cls']}, step,
                             'eval returns %d components, output_length() declares %d' % (len(tab[_key(pts[0])]), olens[oi]))]
            return []
    for step, (op, i) in enumerate(zip(case['ops'], r['steps'])):
        k = op[0]
        if k == 'obj':
            cur = int(op[1])
        if i.get('alias'):
            al = i['alias']
            bad.append(('keeps-reference-to-caller-object', {'argument': al['argument'].split(':')[0].split('(')[0], 'cls': (al['argument'].split(':')[-1].split('.')[0] if ':' in al['argument'] else specs[cur]['cls'])},
                        step, 'the caller edited in place an object it had passed earlier (%s, %s) and the observers changed: %s -> %s'
                        % (al['argument'], al['container'], al['before'], al['after'])))
        if i.get('mutated'):
            m0 = i['mutated'][0]
            bad.append(('argument-mutated', {'op': k, 'argument': m0['argument'].split(':')[0].split('(')[0], 'container': m0['container']}, step,
                        'the call changed an argument object of the caller: %s' % (i['mutated'][:3],)))
        olen = olens[cur]
        cls = specs[cur]['cls']
        ev = lambda p: tabs[cur][_key(p)]
        if k in ('single', 'batch', 'vec', 'vecn', 'vec1'):
            pts = _op_points(op)
            want = [ev(p) for p in pts]
            xdim = bool(pts) and bool(dims_seen[cur] - {len(pts[0])})       # the object has seen another dimension before
            if pts:
                dims_seen[cur].add(len(pts[0]))
            if any(w and w[0] == 'exc' for w in want):
                continue   # direct evaluation itself is undefined at this point
            if i['st'] != 'ok':
                if k == 'single' and not on[cur] and i['exc'] == 'UnboundLocalError':
                    bad.append(('single-point-cache-off-raises', {'exc': i['exc']}, step, i.get('msg')))
                elif k == 'batch' and not pts and i['exc'] == 'IndexError':
                    bad.append(('empty-batch-raises', {'exc': i['exc']}, step, i.get('msg')))
                elif 'Integers to negative integer powers' in (i.get('msg') or ''):
                    bad.append(('integer-negative-power-raises', {'cls': cls, 'exc': i['exc']}, step,
                                'integer coefficients and integer coordinates: %s' % i.get('msg')))
                else:
                    bad.append(('call-raises', {'exc': i['exc'], 'op': k, 'cache_on': on[cur], 'empty': not pts,
                                                'big': len(pts) >= 64}, step, i.get('msg')))
                continue
            if k == 'single':
                shapes = [[olen]]
            elif k == 'batch':
                shapes = [[len(pts), olen]]
            elif k == 'vec':
                shapes = [[len(pts), olen]] + ([[len(pts)]] if olen == 1 else [])
            elif k == 'vec1':
                shapes = [[olen], []] if olen == 1 else [[olen]]
            else:
                outer = [len(op[1]), len(op[1][0])]
                shapes = [outer + [olen]] + ([outer] if olen == 1 else [])
            if i['shape'] not in shapes:
                bad.append(('shape-differs', {'op': k, 'empty': not pts}, step, 'shape %s, expected %s' % (i['shape'], shapes[0])))
            elif not close_list([x for w in want for x in w], i['vals'], *tol):
                got, exp = i['vals'], [x for w in want for x in w]
                j = next((j for j, (x, y) in enumerate(zip(got, exp)) if not close(x, y, *tol)), 0)
                if got[j] == SENTINEL:
                    # the value the caller wrote into an array RETURNED by an earlier call comes back: that array aliases internal state
                    pj = _key(pts[min(j // max(olen, 1), len(pts) - 1)])
                    src = writer[cur].get(pj, '?')
                    bad.append(('result-aliases-internal-state', {'result_of': src, 'read_by': k, 'cache_on': on[cur]}, step,
                                'the array returned by an earlier %s call was overwritten by the caller with %r; this %s call now returns that value (direct eval %r)'
                                % (src, SENTINEL, k, exp[j])))
                else:
                    bad.append(('value-differs', {'op': k, 'cache_on': on[cur], 'other_dimension_before': xdim,
                                                  'several_objects': len(specs) > 1, 'big': len(pts) >= 64}, step,
                                'component %d of %d: returned %r, direct eval of a fresh instance %r' % (j, len(exp), got[j], exp[j])))
            if k in ('single', 'batch') and i['st'] == 'ok' and (on[cur] or k == 'batch'):
                for p in pts:
                    if k == 'batch' or _key(p) not in seen[cur]:
                        writer[cur][_key(p)] = k              # which call wrote the dictionary entry of the point
                    seen[cur].add(_key(p))
        elif i['st'] != 'ok':
            bad.append(('call-raises', {'exc': i['exc'], 'op': k, 'cache_on': on[cur], 'empty': False, 'big': False}, step, i.get('msg')))
        elif k == 'reset':
            seen[cur] = set()
            writer[cur] = {}
        elif k == 'deact':
            on[cur] = False
        if not any(b_[0] == 'result-aliases-internal-state' for b_ in bad) and any(SENTINEL in v for _k, v in i.get('dict', [])):
            kk = next(tuple(k_) for k_, v in i['dict'] if SENTINEL in v)
            src = writer[cur].get(kk, '?')
            bad.append(('result-aliases-internal-state', {'result_of': src, 'read_by': 'f_dict', 'cache_on': on[cur]}, step,
                        'the array returned by a %s call was overwritten by the caller with %r; the evaluation dictionary now holds that value for the point %s'
                        % (src, SENTINEL, list(kk))))
        if any(b_[0] == 'counter-differs' for b_ in bad):
            pass                    # the counter is reported once per case (a wrong dictionary stays wrong)
        elif on[cur] and i['size_after'] != len(seen[cur]):
            bad.append(('counter-differs', {'op': k, 'several_objects': len(specs) > 1}, step,
                        'get_f_dict_size() = %d, distinct points since reset = %d' % (i['size_after'], len(seen[cur]))))
        elif on[cur] and k == 'size' and i['st'] == 'ok' and i['size'] != len(seen[cur]):
            bad.append(('counter-differs', {'op': k, 'several_objects': len(specs) > 1}, step,
                        'returned %d, distinct points = %d' % (i['size'], len(seen[cur]))))
        else:
            for oi in range(len(specs)):
                if oi != cur and on[oi] and i.get('sizes') and i['sizes'][oi] != len(seen[oi]):
                    bad.append(('counter-differs', {'op': k, 'several_objects': True, 'other_object': True}, step,
                                'object %d: get_f_dict_size() = %d after an operation on object %d, distinct points = %d'
                                % (oi, i['sizes'][oi], cur, len(seen[oi]))))
                    break
    return bad


_SHRUNK = {}
_SHRINK_T = [0.0]
SHRINK_BUDGET_S = 50.0        # total wall time spent on shrinking per run (each round costs a pool of workers)


def _same_failure(b, kind, sig):
    """Shrinking keeps the kind of the violation and the structural part of its signature (operation, caching state)."""
    if b[0] != kind:
        return False
    return sig is None or all(b[1].get(k) == sig.get(k) for k in ('cache_on', 'exc', 'cls', 'other_object', 'result_of', 'read_by', 'argument') + (() if kind == 'keeps-reference-to-caller-object' else ('op',)))


def shrink_cache(case, kind, step, key=None, sig=None):
    """Greedy shrinking of an op sequence: the shrunk case must still show a violation of the same kind (oracle).
    Only the first occurrence of a violation group per run is shrunk, within a total time budget."""
    import time
    best = dict(case, ops=case['ops'][:step + 1])
    _SHRUNK[key] = _SHRUNK.get(key, 0) + 1
    if _SHRUNK[key] > 1 or len(_SHRUNK) > 12:
        return best
    for _round in range(8):
        if _SHRINK_T[0] > SHRINK_BUDGET_S:
            break
        t0 = time.time()
        cands = []
        for j in range(len(best['ops']) - 1):
            cands.append(dict(best, ops=best['ops'][:j] + best['ops'][j + 1:]))
        for j, op in enumerate(best['ops']):
            if op[0] in ('batch', 'vec') and len(op[1]) > 1:
                n = len(op[1])
                subs = [op[1][:n // 2], op[1][n // 2:]]
                if n <= 8:
                    subs += [op[1][:t] + op[1][t + 1:] for t in range(n)]
                else:
                    subs += [op[1][:-1], op[1][1:]]
                for sub in subs:
                    cands.append(dict(best, ops=best['ops'][:j] + [[op[0], sub] + op[2:]] + best['ops'][j + 1:]))
        if not cands:
            break
        res = run_impl(impl_cache, cands, limit=60)
        _SHRINK_T[0] += time.time() - t0
        better = None
        for c, (st, r) in zip(cands, res):
            if st == 'ok' and any(_same_failure(b, kind, sig) for b in oracle_cache(c, r)):
                if better is None or len(str(c['ops'])) < len(str(better['ops'])):
                    better = c
        if better is None:
            break
        best = better
    if 'fns' in best and not any(op[0] == 'obj' for op in best['ops']):
        best = {k: v for k, v in best.items() if k != 'fns'}
    return best


# ------------------------------------------------------------------------------------------------ polynomial family wire
def poly_wire(spec):
    c, p = spec['cls'], spec['p']
    R = sx.rat
    if c == 'ConstantValue': return [0, R(p['value'])]
    if c == 'FunctionLinear': return [1, [R(x) for x in p['coeffs']]]
    if c == 'FunctionMultilinear': return [2, [R(x) for x in p['coeffs']]]
    if c == 'FunctionPolynomial': return [3, [R(x) for x in p['coeffs']], int(p['degree'])]
    if c == 'Polynomial1d': return [4, [R(x) for x in p['coeffs']]]
    if c == 'FunctionCompose' and all(s['cls'] in POLY_CLASSES for s, _ in p['fs']):
        return [5, [[poly_wire(s), R(w)] for s, w in p['fs']]]
    return None


def feature(spec, d):
    """Structural description of the instance used in violation signatures."""
    c, p = spec['cls'], spec.get('p', {})
    if c == 'FunctionMultilinear':
        return 'dim>1' if d > 1 else 'dim=1'
    if c == 'GenzOszillatory':
        return 'all-coeffs-zero' if all(x == 0 for x in p['coeffs']) else 'some-coeff-nonzero'
    return ''


def judge_integral(chk, case, bi, spec, d, a, b, an, nu, exact=None, cur=None, fixd=None, exact_tol=(1e-12, 1e-13)):
    """Property clause: analytic integral == numerically computed integral of the point evaluation.
    exact: the formal polynomial integral from the Coq model (Fraction) when available; nu None: no quadrature."""
    cls = spec['cls']
    sig = {'cls': cls, 'feature': feature(spec, d)}
    fc = {'kind': 'integral', 'fn': spec, 'dim': d, 'boxes': [[a, b]], 'points': []}
    if an['st'] == 'none':
        chk.violation('oracle:analytic_integral_equals_numeric', 'analytic-integral-none', {'cls': cls}, fc,
                      dict(analytic=None, numeric=nu and nu['vals'], exact=str(exact)))
        return 'none'
    if an['st'] == 'exc':
        chk.violation('oracle:analytic_integral_equals_numeric', 'analytic-integral-raises', dict(sig, exc=an['exc']), fc,
                      dict(analytic=an, numeric=nu and nu['vals']))
        return 'exc'
    if nu is None and exact is None:
        return 'unreliable'
    rough = bool(nu and nu['rough'])
    tol_r = 2e-2 if rough else (1e-3 if cls in JUMP_QUAD else 1e-6 if cls in SCIPY_QUAD else INT_RTOL)
    if nu is not None and not rough and nu['err'] > 0.05 * tol_r * (1.0 + max(abs(x) for x in nu['vals'])):
        chk.count('integral:quadrature-unreliable')
        if exact is None:
            return 'unreliable'
        nu = None
    ref = nu['vals'] if nu is not None else None
    if ref is not None and len(an['vals']) == 1 and len(ref) > 1:
        an = dict(an, vals=an['vals'] * len(ref))       # a scalar result stands for all output components
    ok_num = ref is None or (len(ref) == len(an['vals']) and all(close(x, y, tol_r, tol_r) for x, y in zip(an['vals'], ref)))
    ok_exact = True
    if exact is not None:
        ok_exact = len(an['vals']) >= 1 and all(close(v_, float(exact), exact_tol[0], exact_tol[1]) for v_ in an['vals'])
        if ref is not None and not close(ref[0], float(exact), tol_r, tol_r):
            chk.violation('corr:C12/quadrature_vs_formal_integral', 'numeric-vs-formal-integral', sig, fc,
                          dict(numeric=ref, formal=str(exact)), failing_input=False)
    if ok_num and ok_exact:
        return 'ok'
    s2 = dict(sig)
    if cur is not None:
        s2['matches_coded_formula'] = bool(cur[0] == 0 and close(an['vals'][0], qf(cur[1]), 1e-12, 1e-13))
    chk.violation('oracle:analytic_integral_equals_numeric', 'analytic-integral-wrong', s2, fc,
                  dict(analytic=an['vals'], numeric=ref, quadrature_error_estimate=nu and nu['err'],
                       formal_integral=(str(exact) if exact is not None else None)))
    return 'wrong'


# ------------------------------------------------------------------------------------------------ run
CORPUS_CACHE = [
    # exemplars of the known findings (always first)
    {'kind': 'cache', 'fn': {'cls': 'FunctionLinear', 'p': {'coeffs': [1.0, 2.0]}}, 'dim': 2,
     'ops': [['deact'], ['single', [0.5, 0.25], 'tuple']]},
    {'kind': 'cache', 'fn': {'cls': 'FunctionLinear', 'p': {'coeffs': [1.0, 2.0]}}, 'dim': 2, 'ops': [['batch', [], 'list']]},
    {'kind': 'cache', 'fn': {'cls': 'GenzDiscontinious2', 'p': {'coeffs': [1.0, 1.0], 'border': [0.5, 0.5]}}, 'dim': 2,
     'ops': [['single', [0.25, 0.25], 'tuple']]},
    {'kind': 'cache', 'fn': {'cls': 'FunctionCantileverBeamD', 'p': {}}, 'dim': 3, 'ops': [['single', [1.0, 2.0, 3.0], 'tuple']]},
    {'kind': 'cache', 'fn': {'cls': 'GenzGaussian', 'p': {'coeffs': [1.0, 2.0], 'mid': [0.5, 0.5]}}, 'dim': 2,
     'ops': [['batch', [[0.25, 0.5], [0.5, 0.5]], 'tuple'], ['single', [0.25, 0.5], 'tuple']], 'cform': 'list', 'scribble': True},
    {'kind': 'cache', 'fn': {'cls': 'GenzCornerPeak', 'p': {'coeffs': [2.0, 1.0]}}, 'dim': 2, 'ops': [['vec', [[1.0, 2.0]], 'int32']],
     'pattern': 'dtype', 'cform': 'int'},
    {'kind': 'cache', 'fn': {'cls': 'GenzProductPeak', 'p': {'coeffs': [1.0, 2.0], 'mid': [0.5, 0.5]}}, 'dim': 2,
     'ops': [['single', [0.25, 0.25], 'tuple']], 'pattern': 'dtype', 'cform': 'intarray'},
    # number types: integer arrays strictly inside the support of a discontinuous function beyond the unit cube
    {'kind': 'cache', 'fn': {'cls': 'GenzDiscontinious', 'p': {'coeffs': [0.5, 0.25], 'border': [2.5, 2.5]}}, 'dim': 2,
     'ops': [['batch', [[1.0, 2.0], [2.0, 1.0], [3.0, 0.0]], 'int64'], ['single', [1.0, 2.0], 'int'], ['vec', [[-1.0, 2.0], [1.0, 1.0]], 'int32'],
             ['batch', [[1.0, 2.0], [0.5, 1.0]], 'mixed'], ['vec1', [2.0, 2.0], 'i32arr'], ['size']], 'pattern': 'dtype', 'cform': 'list'},
    {'kind': 'cache', 'fn': {'cls': 'GenzGaussian', 'p': {'coeffs': [1.5], 'mid': [0.375]}}, 'dim': 1,
     'ops': [['single', [0.625], 'tuple']] + [['size']] * 7, 'cform': 'ndarray', 'caller_mutates': True},
    # regression: batch then single hit, reset, repeated, size
    {'kind': 'cache', 'fn': {'cls': 'GenzCornerPeak', 'p': {'coeffs': [1.0, 2.0]}}, 'dim': 2,
     'ops': [['batch', [[0.5, 0.25], [1.0, 1.0], [0.5, 0.25]], 'tuple'], ['size'], ['single', [1.0, 1.0], 'tuple'], ['reset'], ['size'],
             ['single', [1.0, 1.0], 'list'], ['single', [1.0, 1.0], 'ndarray'], ['size'], ['vec', [[0.0, 0.0], [1.0, 1.0]]],
             ['batch', [[0.0, 0.0], [-0.0, 0.0]], 'ndarray'], ['size']]},
    # cache entries written by the single path (bare scalar / list) read back by the batch path and vice versa
    {'kind': 'cache', 'fn': {'cls': 'FunctionLinear', 'p': {'coeffs': [1.0, 2.0]}}, 'dim': 2,
     'ops': [['single', [0.5, 0.25], 'tuple'], ['single', [1.0, 1.0], 'tuple'], ['batch', [[0.5, 0.25], [1.0, 1.0]], 'tuple'], ['size']]},
    {'kind': 'cache', 'fn': {'cls': 'FunctionLinear', 'p': {'coeffs': [1.0, 2.0]}}, 'dim': 2,
     'ops': [['batch', [[0.5, 0.25]], 'tuple'], ['single', [1.0, 1.0], 'tuple'], ['batch', [[0.5, 0.25], [1.0, 1.0]], 'tuple'],
             ['batch', [[0.5, 0.25], [1.0, 1.0]], 'tuple'], ['size']]},
    {'kind': 'cache', 'fn': {'cls': 'CustomFunction', 'p': {'fn': 'vec2', 'olen': 2}}, 'dim': 2,
     'ops': [['single', [0.5, 0.25], 'tuple'], ['batch', [[0.5, 0.25]], 'tuple'], ['batch', [[1.0, 0.0], [0.5, 0.25]], 'tuple'],
             ['reset'], ['batch', [[0.5, 0.25]], 'list'], ['single', [0.5, 0.25], 'ndarray'], ['size']]},
    {'kind': 'cache', 'fn': {'cls': 'FunctionCustom', 'p': {'fns': ['p2a', 'p2b', 'sq1d']}}, 'dim': 1,
     'ops': [['single', [0.5], 'tuple'], ['single', [1.5], 'list'], ['batch', [[0.5], [1.5]], 'tuple'], ['batch', [[1.5], [0.5]], 'ndarray']]},
]
CORPUS_INTEGRAL = [
    {'kind': 'integral', 'fn': {'cls': 'FunctionCompose', 'p': {'fs': [[{'cls': 'GenzDiscontinious', 'p': {'coeffs': [1.0, 2.0], 'border': [0.5, 0.5]}}, 1.0],
                                                                        [{'cls': 'GenzGaussian', 'p': {'coeffs': [2.0, 3.0], 'mid': [0.5, 0.5]}}, 0.5]]}},
     'dim': 2, 'boxes': [[[0.0, 0.0], [1.0, 1.0]], [[0.0, 0.0], [1.0, 0.75]]], 'points': [[0.25, 0.25]], 'bform': 'ndarray', 'cform': 'ndarray',
     'companions': [{'cls': 'GenzC0', 'p': {'coeffs': [1.0, 2.0], 'mid': [0.5, 0.5]}}]},
    {'kind': 'integral', 'fn': {'cls': 'ConstantValue', 'p': {'value': 2.5}}, 'dim': 2, 'boxes': [[[0.0, 0.0], [1.0, 2.0]]], 'points': [[0.5, 0.5]]},
    {'kind': 'integral', 'fn': {'cls': 'FunctionMultilinear', 'p': {'coeffs': [1.0, 2.0]}}, 'dim': 2, 'boxes': [[[0.0, 0.0], [2.0, 3.0]]],
     'points': [[0.5, 0.25]]},
    {'kind': 'integral', 'fn': {'cls': 'GenzOszillatory', 'p': {'coeffs': [0.0, 0.0], 'offset': 0.125}}, 'dim': 2,
     'boxes': [[[0.0, 0.0], [1.0, 2.0]]], 'points': [[0.5, 0.25]]},
    {'kind': 'integral', 'fn': {'cls': 'FunctionMultilinear', 'p': {'coeffs': [3.0]}}, 'dim': 1, 'boxes': [[[0.5], [2.0]]], 'points': [[0.5]]},
]


# ------------------------------------------------------------------------------------------------ huge batches (size axis)
# Batch sizes on a GEOMETRIC scale (2^k + r), far beyond every size the cache-machine cases use, plus sizes just above every
# numeric class attribute / module constant of Function.py found at run time (gates a change may introduce). Cost O(sample):
# the batch is evaluated once (vectorised), values are compared with the scalar eval of a fresh instance on a strided sample,
# the first/last 3 points and the neighbours of every power of two; the cache clauses are checked on the same sample.
HUGE_CLASSES = ['GenzGaussian', 'FunctionPolynomial', 'FunctionExpVar', 'GenzDiscontinious2']


def huge_points(np, n, d):
    """n DISTINCT points of [0,1)^d, reproducible from (n, d): first coordinate i / 2^19, the others from a linear congruence"""
    i = np.arange(n, dtype=np.int64)
    cols = [i / float(2 ** 19)]
    for k in range(1, d):
        cols.append(((i * (7919 + 2 * k) + 104729 * k) % 65536) / 65536.0)
    return np.stack(cols, axis=1)


def huge_sample(n):
    idx = set(range(min(3, n))) | set(range(max(0, n - 3), n)) | set(range(0, n, max(1, n // 48)))
    k = 1
    while k <= n:
        idx |= {j for j in (k - 2, k - 1, k, k + 1) if 0 <= j < n}
        k *= 2
    return sorted(idx)


def scan_gates():
    """ints >= 64 among the class attributes of Function and its subclasses and the module constants of sparseSpACE.Function"""
    import sparseSpACE.Function as F
    gates = {}
    for name, obj in vars(F).items():
        if isinstance(obj, int) and not isinstance(obj, bool) and 64 <= obj <= 2 ** 19:
            gates['Function.py:' + name] = int(obj)
        if isinstance(obj, type) and issubclass(obj, F.Function):
            for a_, v_ in vars(obj).items():
                if isinstance(v_, int) and not isinstance(v_, bool) and 64 <= v_ <= 2 ** 19:
                    gates['%s.%s' % (name, a_)] = int(v_)
    return gates


def impl_scan_gates(_case):
    return scan_gates()


def impl_huge(case):
    import numpy as np
    spec, n, d = case['fn'], case['n'], case['dim']
    f = build(spec)
    olen = int(f.output_length())
    P = huge_points(np, n, d)
    pts = [tuple(float(x) for x in row) for row in P]
    sample = huge_sample(n)
    g = build(spec)
    ref = [_norm_value(g.eval(pts[i])) for i in sample]
    res = {'olen': olen, 'sample': sample, 'ref': ref}
    try:
        r = f(pts if case.get('form', 'tuple') == 'tuple' else P)
        res['batch'] = {'st': 'ok', 'shape': list(np.shape(r)), 'vals': [[float(x) for x in np.asarray(r[i], dtype=float).ravel()] for i in sample] if np.shape(r)[:1] == (n,) else []}
    except Exception as e:
        res['batch'] = _exc_record(e)
    res['size_after_batch'] = int(f.get_f_dict_size())
    singles = []
    for i in sample:                      # cache hits: must agree with eval and must not change the counter
        try:
            singles.append([float(x) for x in np.asarray(f(pts[i]), dtype=float).ravel()])
        except Exception as e:
            singles.append(['exc', type(e).__name__])
    res['singles'] = singles
    res['size_after_singles'] = int(f.get_f_dict_size())
    try:
        v = np.asarray(f.eval_vectorized(P), dtype=float)
        res['vec'] = {'st': 'ok', 'shape': list(v.shape), 'vals': [[float(x) for x in np.atleast_1d(v[i]).ravel()] for i in sample] if v.shape[:1] == (n,) else []}
    except Exception as e:
        res['vec'] = _exc_record(e)
    return res


def gen_huge_cases(rng, gates):
    sizes = []
    for k in range(8, 18):
        sizes.append((2 ** k + rng.choice([-1, 0, 1, 3, 1000]), '2^%d+r' % k))
    for name, gv in sorted(gates.items()):
        for n_ in ((gv + 1, gv + 3, 2 * gv + 1) if not name.startswith('source:') else (gv + 1,)):
            if n_ <= 2 ** 19:
                sizes.append((n_, 'above ' + name))
    sizes.append((2 ** 18 + 5, 'fixed: larger than every other case'))
    cases = []
    for j, (n, why) in enumerate(sizes):
        cls = HUGE_CLASSES[(j + rng.randrange(4)) % 4]
        d = rng.choice([1, 2, 3])
        fn, _dom = gen_fn(rng, d, cls)
        if cls == 'GenzDiscontinious2':
            fn['p']['coeffs'] = [abs(x) for x in fn['p']['coeffs']]
        cases.append({'kind': 'huge', 'fn': fn, 'dim': d, 'n': int(n), 'why': why, 'form': rng.choice(['tuple', 'tuple', 'ndarray'])})
    return cases


def oracle_huge(case, r):
    """Property predicate on one huge batch. Returns list of (kind, sig, detail)."""
    n, olen = case['n'], r['olen']
    bad = []
    sig0 = {'op': 'batch', 'big': True, 'size': '2^%d..' % (n.bit_length() - 1)}
    b = r['batch']
    if b['st'] != 'ok':
        return [('call-raises', dict(sig0, exc=b['exc'], cache_on=True, empty=False), dict(n=n, msg=b.get('msg')))]
    if b['shape'] != [n, olen]:
        bad.append(('shape-differs', {'op': 'batch', 'empty': False, 'big': True}, dict(n=n, shape=b['shape'], expected=[n, olen])))
    else:
        for i, got, exp in zip(r['sample'], b['vals'], r['ref']):
            if not close_list(got, exp):
                bad.append(('value-differs', dict(sig0, cache_on=True, other_dimension_before=False, several_objects=False),
                            dict(n=n, index=i, point='huge_points(n, dim)[%d]' % i, returned=got, direct_eval=exp)))
                break
    if r['size_after_batch'] != n or r['size_after_singles'] != n:
        bad.append(('counter-differs', {'op': 'batch', 'several_objects': False, 'big': True},
                    dict(n=n, distinct_points=n, after_batch=r['size_after_batch'], after_cache_hits=r['size_after_singles'])))
    for i, got, exp in zip(r['sample'], r['singles'], r['ref']):
        if got[:1] == ['exc'] or not close_list(got, exp):
            bad.append(('value-differs', {'op': 'single', 'cache_on': True, 'other_dimension_before': False, 'several_objects': False, 'big': True,
                                          'after': 'huge batch'}, dict(n=n, index=i, returned=got, direct_eval=exp)))
            break
    v = r['vec']
    if v['st'] == 'ok' and v['shape'][:1] == [n]:
        for i, got, exp in zip(r['sample'], v['vals'], r['ref']):
            if not close_list(got, exp):
                bad.append(('value-differs', {'op': 'vec', 'cache_on': True, 'other_dimension_before': False, 'several_objects': False, 'big': True},
                            dict(n=n, index=i, returned=got, direct_eval=exp)))
                break
    elif v['st'] != 'ok':
        bad.append(('call-raises', {'exc': v['exc'], 'op': 'vec', 'cache_on': True, 'empty': False, 'big': True}, dict(n=n, msg=v.get('msg'))))
    return bad


def check_huge_cases(chk):
    st, gates = run_impl(impl_scan_gates, [None])[0]
    gates = gates if st == 'ok' else {}
    try:        # axis (k): numeric literals / 2**k / 1<<k / k*1024 in the SOURCE of the code path under test ($VERIF_REPO/sparseSpACE/Function.py)
        from . import c02 as _c02
        saved = _c02.GATE_SCOPE
        _c02.GATE_SCOPE = {'sparseSpACE/Function.py': None}
        try:
            for g_, where_ in sorted(_c02.scan_gates().items()):
                if g_ not in gates.values():
                    gates['source:%s=%d' % (where_, g_)] = int(g_)
        finally:
            _c02.GATE_SCOPE = saved
    except Exception as e_:
        chk.notes.append('gate scan of the source failed: %r' % (e_,))
    chk.extra['numeric_class_attributes_and_module_constants_of_Function_py'] = gates
    cases = gen_huge_cases(chk.rng, gates)
    impl = run_impl(impl_huge, cases, limit=240)
    keys = []
    for c, (st, r) in zip(cases, impl):
        chk.count('huge:size=2^%d..' % (c['n'].bit_length() - 1))
        chk.count('huge:cls=' + c['fn']['cls'])
        chk.count('huge:why=' + ('geometric' if c['why'].startswith('2^') else 'above-a-constant-of-the-code'))
        if st != 'ok':
            chk.violation('corr:C12/huge_batch', 'worker-failed', {'status': st}, c, dict(impl=str(r)), failing_input=False)
            continue
        chk.traces += 1
        for kind, sig, detail in oracle_huge(c, r):
            chk.violation('oracle:cache_transparent', kind, sig, c, detail)
        keys.append(('huge', c['fn']['cls'], c['n'], c['dim']))
    return cases, keys


def _tab_wire(tab):
    return [[[sx.rat(x) for x in k], [sx.rat(x) for x in v]] for k, v in tab]


def _canon_vtab(chk, etab, vtab):
    """check_vectorization compares with math.isclose (rel 1e-9); the model compares exactly: rows of the vectorised table
    that are isclose to the scalar table are replaced by the scalar rows."""
    out = []
    for (k, ev), (_k2, vv) in zip(etab, vtab):
        if not vv or vv[0] == 'exc' or not finite(vv):
            if chk is not None:
                chk.count('cache:vectorised-row-undefined')
            out.append([k, ev])
        elif close_list(vv, ev, 1e-9, 0.0):
            out.append([k, ev])
        else:
            out.append([k, vv])
    return out


def check_cache_cases(chk, cases):
    impl = run_impl(impl_cache, cases, limit=120)
    mcases, idx = [], []
    proj = {}
    for ci, (c, (st, r)) in enumerate(zip(cases, impl)):
        if st != 'ok':
            chk.violation('corr:C12/cache_history', 'worker-failed', {'status': st}, c, dict(impl=str(r)), failing_input=False)
            continue
        if r.get('build_failed'):
            bf = r['build_failed']
            kind = 'integer-negative-power-raises' if 'Integers to negative integer powers' in (bf.get('msg') or '') else 'constructor-raises'
            chk.violation('oracle:cache_transparent', kind, {'cls': c['fn']['cls'], 'exc': bf['exc']}, dict(c, ops=c['ops'][:1]),
                          dict(where=bf.get('where'), msg=bf.get('msg'), parameters_given_as=r['cform']))
            continue
        if any(not finite(v) for t in r['tables'] for _k, v in t):
            chk.count('cache:nonfinite-or-undefined-eval')
            continue
        per = project_ops(c)
        proj[ci] = per
        for oi, idxs in enumerate(per):
            if not idxs:
                continue
            etab = r['tables'][oi]
            vtab = _canon_vtab(chk, etab, r['vtables'][oi])
            if any(a[1] != b[1] for a, b in zip(etab, vtab)):
                chk.count('cache:vectorised-table-differs-from-scalar')
            ops_o = [c['ops'][i] for i in idxs]
            mcases.append((2, [r['olens'][oi], [1, 1], 1 if r['calls_check_vectorization'] else 0, _tab_wire(etab), _tab_wire(vtab),
                               [wire_op(o) for o in ops_o]]))
            idx.append((ci, oi, 'fixed', idxs))
            if len(etab) <= 300:        # model of the code before the fixes of the findings (informative only)
                idxs0 = [i for i in idxs if c['ops'][i][0] != 'debug']
                mcases.append((0, [r['olens'][oi], [0, 0], _tab_wire(etab), [wire_op(c['ops'][i]) for i in idxs0]]))
                idx.append((ci, oi, 'cur', idxs0))
        # nested arrays through the generic eval_vectorized (classes without an override)
        cur = 0
        for s, op in enumerate(c['ops']):
            if op[0] == 'obj':
                cur = int(op[1])
            if op[0] == 'vecn':
                if r['has_vec_override']:
                    chk.count('cache:vecn-on-override(oracle-only)')
                else:
                    mcases.append((3, [r['olens'][cur], _tab_wire(r['tables'][cur]), 2, [[[sx.rat(x) for x in p] for p in blk] for blk in op[1]]]))
                    idx.append((ci, cur, 'vecn', [s]))
    # classes with an exact Coq model of eval (GenzCornerPeak): the tables of the implementation against the model's eval
    cp_q = []
    for ci, c in enumerate(cases):
        if ci in proj and c['fn']['cls'] == 'GenzCornerPeak' and len(case_specs(c)) == 1 and impl[ci][1]['tables'][0]:
            keys_ = [k for k, _v in impl[ci][1]['tables'][0] if len(k) == len(c['fn']['p']['coeffs'])]
            cp_q.append((ci, keys_))
    mres_all = run_model(12, mcases + [(4, [[sx.rat(x) for x in cases[ci]['fn']['p']['coeffs']], [[sx.rat(x) for x in k] for k in keys_], []])
                                       for ci, keys_ in cp_q])
    mres = mres_all[:len(mcases)]
    for (ci, keys_), cp in zip(cp_q, mres_all[len(mcases):]):
        if sx.is_err(cp) or isinstance(cp, tuple):
            chk.violation('corr:C12/cornerpeak_eval', 'model-rejects', {'cls': 'GenzCornerPeak'}, cases[ci], dict(model=str(cp)[:300]), failing_input=False)
            continue
        et = {tuple(k): v for k, v in impl[ci][1]['tables'][0]}
        vt = {tuple(k): v for k, v in impl[ci][1]['vtables'][0]}
        for k, (me, mv) in zip(keys_, cp[0]):
            if me[0] != 0:
                continue
            ok = close_list(et[tuple(k)], [qf(me[1])]) and (vt[tuple(k)][:1] == ['exc'] or close_list(vt[tuple(k)], [qf(mv[1])]))
            chk.count('cornerpeak:table-vs-exact-model=' + ('agrees' if ok else 'differs'))
            if not ok:
                chk.violation('corr:C12/cornerpeak_eval', 'cornerpeak-eval-differs', {'cls': 'GenzCornerPeak'},
                              {'kind': 'cache', 'fn': cases[ci]['fn'], 'dim': len(k), 'ops': [['single', list(k), 'tuple'], ['vec', [list(k)]]]},
                              dict(point=k, eval=et[tuple(k)], eval_vectorized_row=vt[tuple(k)], model=str(sx.q(me[1]))), failing_input=False)
    by = {}
    for (ci, oi, v, idxs), mr in zip(idx, mres):
        by.setdefault(ci, []).append((oi, v, idxs, mr))
    keys, samples = [], []
    for ci, runs in sorted(by.items()):
        c = cases[ci]; r = impl[ci][1]
        specs = case_specs(c)
        cls = c['fn']['cls']
        chk.count('cache:cls=' + cls); chk.count('cache:dim=%d' % c['dim'])
        chk.count('cache:pattern=' + c.get('pattern', 'random'))
        chk.count('cache:objects=%d' % len(specs))
        chk.count('cache:constructor-sequences=%s' % c.get('cform', 'list'))
        chk.count('cache:caller-overwrites-returned-arrays=%s' % bool(c.get('scribble')))
        dims = sorted(set(len(p) for op in c['ops'] for p in _op_points(op)))
        chk.count('cache:dimensions-on-one-case=%d' % len(dims))
        if len(dims) > 1:
            chk.count('cache:xdim-cls=' + cls)
        for d_ in dims:
            chk.count('cache:point-dim=%d' % d_)
        for op in c['ops']:
            chk.count('cache:op=' + op[0] + ('-empty' if op[0] in ('batch', 'vec') and not op[1] else ''))
            if op[0] in ('single', 'batch') or (op[0] in ('vec', 'vec1') and len(op) > 2):
                chk.count('cache:form=%s/%s' % (op[0], op[2]))
            if op[0] in ('batch', 'vec'):
                chk.count('cache:batchsize=' + _bucket(len(op[1])))
        chk.traces += 1
        rejected = [mr for _oi, _v, _idxs, mr in runs if sx.is_err(mr) or isinstance(mr, tuple)]
        if rejected:
            chk.violation('corr:C12/cache_history', 'model-rejects', {}, c, dict(model=str(rejected[0])[:300]), failing_input=False)
            continue
        orc = oracle_cache(c, r)
        # --- correspondence: implementation against the model of the repaired code, then of the code as it was
        d_fixed, d_cur = [], []
        for oi, v, idxs, mr in runs:
            if v == 'vecn':
                s = idxs[0]
                i = r['steps'][s]
                if mr and mr[0] == -1:
                    if i['st'] == 'ok':
                        d_fixed.append((s, [('exception', 'model: wrong row length, implementation returns')]))
                    continue
                rows = [[qf(x) for x in row] for blk in mr[0] for row in blk]
                want_shape = list(mr[1]) + [r['olens'][oi]]
                if i['st'] != 'ok':
                    d_fixed.append((s, [('exception', 'implementation raises %s, generic eval_vectorized model returns' % i['exc'])]))
                elif i['shape'] != want_shape or list(mr[1]) != list(mr[2]):
                    d_fixed.append((s, [('shape', 'implementation %s, model %s' % (i['shape'], want_shape))]))
                elif not close_list([x for row in rows for x in row], i['vals']):
                    d_fixed.append((s, [('values', 'nested eval_vectorized differs from the model')]))
                continue
            dl = [(s, cmp_step(c['ops'][s], m, r['steps'][s], r['olens'][oi], case_tol(c))) for s, m in zip(idxs, mr)]
            (d_fixed if v == 'fixed' else d_cur).extend(dl)
        d_fixed.sort(key=lambda x: x[0]); d_cur.sort(key=lambda x: x[0])
        nf = sum(1 for _, d in d_fixed if d); nc = sum(1 for _, d in d_cur if d)
        if nf == 0:
            chk.count('cache:agrees-with=fixed-model' if nc else 'cache:agrees-with=both-models')
        elif nc == 0:
            chk.count('cache:agrees-with=current-code-model')
        reported = set()
        for kind, sig, step, detail in orc:
            key = (kind, str(sorted(sig.items())))
            if key in reported:
                continue
            reported.add(key)
            if kind in ('single-point-cache-off-raises', 'empty-batch-raises', 'declared-output-length-wrong') and len(specs) == 1:
                pre = [['deact']] if kind == 'single-point-cache-off-raises' else []
                fc = dict(c, ops=pre + [c['ops'][step]])
            elif kind == 'keeps-reference-to-caller-object':
                fc = dict(c, ops=c['ops'][:step + 1])          # the caller's edit depends on the step sequence: not shrunk
            else:
                fc = shrink_cache(c, kind, step, key, sig)
            chk.violation('oracle:cache_transparent', kind, sig, fc, dict(step=step, detail=detail, op=str(c['ops'][step])[:300]))
        if nf and not orc:
            s, d = next((s, d) for s, d in d_fixed if d)
            chk.violation('corr:C12/cache_history', 'cache-history-differs', {'observable': d[0][0], 'op': c['ops'][s][0]},
                          dict(c, ops=c['ops'][:s + 1]), dict(step=s, differs=d, note='implementation differs from the model of Function.__call__ (instantiated with the scalar and row-wise vectorised values of fresh instances); the property predicate found no failing input'),
                          failing_input=False)
        elif nf:
            # both the oracle and the correspondence disagree: already reported by the oracle with a failing input
            chk.count('cache:corr-and-oracle-disagree')
        kinds = set(op[0] for op in c['ops'])
        if len(c['ops']) >= 4 and ('single' in kinds) and ('batch' in kinds):
            keys.append(('cache', cls, str(c['fn']['p']), str(c['ops'])[:2000], len(str(c['ops']))))
        if len(samples) < 2 and len(c['ops']) >= 6 and {'single', 'batch', 'reset'} <= kinds and len(str(c['ops'])) < 1500:
            samples.append(dict(fn=c['fn'], ops=c['ops'][:8], first_results=[(s.get('vals') or s.get('size') or s.get('exc')) for s in r['steps'][:8]]))
        elif len(samples) < 3 and len(dims) > 1 and len(str(c['ops'])) < 1500 and c.get('pattern', '').startswith('xdim'):
            samples.append(dict(fn=c['fn'], ops=c['ops'][:8], first_results=[(s.get('vals') or s.get('size') or s.get('exc')) for s in r['steps'][:8]]))
    return keys, samples


def oracle_integral_history(case, r):
    """History clauses on ONE object (implementation alone): the analytic integral over a box does not depend on what the
    object was used for before; the evaluations through the object's vectorised path / batch call integrate to the same
    number as the scalar eval of a fresh instance; single and batch calls agree with eval before and after the integrals.
    Returns list of (kind, sig, truncated case, detail)."""
    spec = case['fn']
    cls = spec['cls']
    bad = []
    dims_before = set(len(p) for p in case['points'])
    for bi, ((a, b), rec) in enumerate(zip(case['boxes'], r['boxes'])):
        d = len(a)
        hist = dict(case, boxes=case['boxes'][:bi + 1])
        xdim = bool(dims_before - {d})
        dims_before.add(d)
        an, af = rec['analytic'], rec['analytic_fresh']
        if rec.get('mutated'):
            m0 = rec['mutated'][0]
            bad.append(('argument-mutated', {'op': 'getAnalyticSolutionIntegral', 'argument': m0['argument'].split(':')[0].split('(')[0],
                                             'container': m0['container'], 'cls': cls}, hist, dict(box=[a, b], changed=rec['mutated'][:3])))
        for cr in rec.get('companions', []):
            if cr.get('mutated'):
                m0 = cr['mutated'][0]
                bad.append(('argument-mutated', {'op': 'getAnalyticSolutionIntegral', 'argument': m0['argument'].split(':')[0].split('(')[0],
                                                 'container': m0['container'], 'cls': cr['cls']}, hist, dict(box=[a, b], changed=cr['mutated'][:3])))
            sh, fr = cr['shared'], cr['fresh']
            if not (fr['st'] == 'ok' and finite(fr['vals'])):
                continue            # the companion is not defined on this box (container-dependent nan / complex power / division by zero)
            if sh['st'] != 'ok' or not close_list(sh['vals'], fr['vals'], 1e-12, 1e-13):
                bad.append(('analytic-integral-depends-on-argument-identity', {'cls': cr['cls'], 'after': cls}, hist,
                            dict(box=[a, b], with_the_corner_objects_used_before=sh, with_fresh_copies=fr)))
        if an['st'] != af['st'] or (an['st'] == 'ok' and not close_list(an['vals'], af['vals'], 1e-12, 1e-13)):
            bad.append(('analytic-integral-history-dependent', {'cls': cls, 'other_dimension_before': xdim}, hist,
                        dict(box=[a, b], on_history_object=an, on_fresh_object=af)))
        nu = rec['numeric']
        if nu is None:
            continue
        tol = 2e-2 if nu['rough'] else 1e-9
        for path, th in sorted(rec['through'].items()):
            if th['st'] != 'ok':
                bad.append(('evaluation-for-quadrature-raises', {'cls': cls, 'path': path, 'exc': th['exc']}, hist,
                            dict(box=[a, b], through=th)))
            elif not close_list(th['vals'], nu['vals'], tol, tol * 1e-3):
                bad.append(('integral-of-evaluations-differs', {'cls': cls, 'path': path, 'other_dimension_before': xdim}, hist,
                            dict(box=[a, b], quadrature_of_object_evaluations=th['vals'], quadrature_of_fresh_scalar_eval=nu['vals'],
                                 analytic=an.get('vals'), points=th['npoints'])))
    if r.get('mutated_by_evaluation'):
        m0 = r['mutated_by_evaluation'][0]
        bad.append(('argument-mutated', {'op': 'call', 'argument': m0['argument'].split(':')[0].split('(')[0], 'container': m0['container'], 'cls': cls},
                    case, dict(changed=r['mutated_by_evaluation'][:3])))
    for phase in ('points', 'points_after'):
        for p, pr in zip(case['points'], r[phase]):
            if pr['st'] == 'ok' and finite(pr['eval']) and not (close_list(pr['call'], pr['eval']) and close_list(pr['batch'], pr['eval'])):
                bad.append(('value-differs', {'op': 'call-vs-eval', 'cache_on': True, 'after_integrals': phase == 'points_after'},
                            dict(case, boxes=case['boxes'] if phase == 'points_after' else [], points=case['points']),
                            dict(point=p, eval=pr['eval'], call=pr['call'], batch=pr['batch'])))
    for pr, pa in zip(r['points'], r['points_after']):
        if pr['st'] != pa['st']:
            bad.append(('call-raises', {'op': 'call-after-integral', 'exc': pa.get('exc'), 'cache_on': True, 'empty': False, 'big': False},
                        case, dict(before=pr, after=pa)))
    return bad


def sym_float(symw, y1=1.0):
    """Floating-point value (and a conditioning bound) of a symbolic result of the model: product of sums of coefficient * atom."""
    val, cond = 1.0, 1.0
    for lin in symw:
        sv, sc = 0.0, 0.0
        for coef, atom in lin:
            a = math.exp(qf(atom[1])) if atom[0] == 0 else (qf(atom[1]) ** y1 if atom[0] == 1 else 1.0)
            sv += qf(coef) * a
            sc += abs(qf(coef) * a)
        val *= sv
        cond *= sc
    return val, cond


SYMBOLIC = ('GenzDiscontinious', 'GenzDiscontinious2', 'GenzC0', 'FunctionExpVar', 'FunctionDiagonalDiscont', 'FunctionG')


def sym_query(c):
    R = sx.rat
    cls, p = c['fn']['cls'], c['fn'].get('p', {})
    pts = [[R(x) for x in q_] for q_ in c['points']]
    boxes = [[[R(x) for x in a], [R(x) for x in b]] for a, b in c['boxes']]
    if cls in ('GenzDiscontinious', 'GenzDiscontinious2'):
        return (5, [[R(x) for x in p['coeffs']], [R(x) for x in p['border']], pts, boxes])
    if cls == 'GenzC0':
        return (6, [[R(x) for x in p['coeffs']], [R(x) for x in p['mid']], pts, boxes])
    if cls == 'FunctionExpVar':
        return (7, boxes)
    return (8, [0 if cls == 'FunctionDiagonalDiscont' else 1, pts, boxes])


def sym_box_value(cls, m, bi):
    """(float value of the model's analytic integral for box bi, absolute tolerance) or None"""
    if cls in ('GenzDiscontinious', 'GenzDiscontinious2'):
        e = m[1][bi]
        v, cond = (0.0, 0.0) if e[0] == 0 else sym_float(e[1])
    elif cls == 'GenzC0':
        v, cond = sym_float(m[1][bi])
    elif cls == 'FunctionExpVar':
        e = m[bi]
        if e[0] == 0:
            return None
        y, k = qf(e[1]), qf(e[2])
        v, cond = sym_float(e[3], 1.0 + y)
        v, cond = k * v, k * cond
    else:
        e = m[1][bi]
        if e[0] != 0:
            return None
        v, cond = qf(e[1]), 0.0
    return v, 1e-13 + 64 * 2.3e-16 * cond


def sym_point_value(cls, m, k):
    if cls in ('GenzDiscontinious', 'GenzDiscontinious2'):
        e = m[0][k]
        return 0.0 if e[0] == 0 else math.exp(qf(e[1]))
    if cls == 'GenzC0':
        return math.exp(qf(m[0][k]))
    if cls == 'FunctionExpVar':
        return None
    return qf(m[0][k])


def check_integral_cases(chk, cases):
    impl = run_impl(impl_integral, cases, limit=300)
    mcases, midx = [], []
    for ci, c in enumerate(cases):
        w = poly_wire(c['fn'])
        if w is not None:
            R = sx.rat
            # one model query per dimension occurring in the case
            for d in sorted(set([len(a) for a, _ in c['boxes']] + [len(p) for p in c['points']])):
                mcases.append((1, [w, d, [[R(x) for x in p] for p in c['points'] if len(p) == d],
                                   [[[R(x) for x in a], [R(x) for x in b]] for a, b in c['boxes'] if len(a) == d]]))
                midx.append((ci, d))
    cp_idx = [ci for ci, c in enumerate(cases) if c['fn']['cls'] == 'GenzCornerPeak']
    R = sx.rat
    cp_cases = [(4, [[R(x) for x in cases[ci]['fn']['p']['coeffs']], [[R(x) for x in p] for p in cases[ci]['points']],
                     [[[R(x) for x in a], [R(x) for x in b]] for a, b in cases[ci]['boxes']]]) for ci in cp_idx]
    sy_idx = [ci for ci, c in enumerate(cases) if c['fn']['cls'] in SYMBOLIC]
    allres = run_model(12, mcases + cp_cases + [sym_query(cases[ci]) for ci in sy_idx])
    cpres = dict(zip(cp_idx, allres[len(mcases):len(mcases) + len(cp_cases)]))
    syres = dict(zip(sy_idx, allres[len(mcases) + len(cp_cases):]))
    mres = {}
    for (ci, d), m in zip(midx, allres[:len(mcases)]):
        mres.setdefault(ci, {})[d] = m
    keys, samples = [], []
    for ci, (c, (st, r)) in enumerate(zip(cases, impl)):
        spec = c['fn']
        cls = spec['cls']
        bdims = [len(a) for a, _ in c['boxes']]
        chk.count('integral:cls=' + cls)
        for d in sorted(set(bdims)):
            chk.count('integral:dim=%d' % d)
        chk.count('integral:dimensions-on-one-object=%d' % len(set(bdims)))
        chk.count('integral:corner-objects=%s' % c.get('bform', 'list'))
        chk.count('integral:companions-on-the-same-corner-objects=%d' % len(c.get('companions', [])))
        chk.count('integral:constructor-sequences=%s' % c.get('cform', 'list'))
        chk.count('integral:boxes-on-one-object=%d' % len(bdims))
        for j, (a, b) in enumerate(c['boxes']):
            if any(x == y for x, y in zip(a, b)):
                chk.count('integral:box=degenerate')
            if any(a == a2 and b != b2 or b == b2 and a != a2 for a2, b2 in c['boxes'][:j]):
                chk.count('integral:box=shares-a-corner-with-an-earlier-box')
            if any(a == a2 and b == b2 for a2, b2 in c['boxes'][:j]):
                chk.count('integral:box=repeated')
        if st != 'ok':
            chk.violation('corr:C12/integral', 'worker-failed', {'status': st, 'cls': cls}, c, dict(impl=str(r)), failing_input=False)
            continue
        chk.traces += 1
        ms = mres.get(ci, {})
        for d, m in list(ms.items()):
            if sx.is_err(m) or isinstance(m, tuple):
                chk.violation('corr:C12/integral', 'model-rejects', {'cls': cls}, c, dict(model=str(m)[:300]), failing_input=False)
                del ms[d]
        seen_in_dim = {}
        for bi, ((a, b), rec) in enumerate(zip(c['boxes'], r['boxes'])):
            d = len(a)
            exact = cur = fixd = None
            m = ms.get(d)
            k = seen_in_dim.get(d, 0)
            seen_in_dim[d] = k + 1
            if m is not None and m[0] == 1:
                cur, fixd, spec_int = m[2][k]
                exact = sx.q(spec_int)
            verdict = None
            if cls == 'FunctionCompose' and rec['components']:
                # attribute a failure to the component that fails on its own
                comp_bad = False
                for s, comp in zip([s for s, _ in spec['p']['fs']], rec['components']):
                    v = judge_integral(chk, c, bi, s, d, a, b, comp['analytic'], comp['numeric'])
                    comp_bad = comp_bad or v in ('none', 'exc', 'wrong')
                if comp_bad:
                    chk.count('integral:compose-with-failing-component')
                    continue
            exact_tol = (1e-12, 1e-13)
            cp = cpres.get(ci)
            if cp is not None and (sx.is_err(cp) or isinstance(cp, tuple)) and bi == 0:
                chk.violation('corr:C12/integral', 'model-rejects', {'cls': cls}, c, dict(model=str(cp)[:300]), failing_input=False)
            if cp is not None and not sx.is_err(cp) and not isinstance(cp, tuple):
                mi, mst = cp[1][bi]
                if mi[0] == 0:                      # exact value of the GenzCornerPeak model (inclusion-exclusion: cancellation in floats)
                    co = [float(x) for x in spec['p']['coeffs']]
                    terms = [1.0 / (1.0 + sum((a[k] if cb[k] else b[k]) * co[k] for k in range(d))) for cb in itertools.product([0, 1], repeat=d)]
                    cond = sum(abs(t) for t in terms) / (math.factorial(d) * abs(float(np_prod(co))))
                    exact, exact_tol = sx.q(mi[1]), (1e-9, 1e-13 + 32 * d * 2.3e-16 * cond)
                    chk.count('cornerpeak:integral-dim=%d' % d)
                    chk.count('cornerpeak:integral-vs-exact-model')
                    if sx.q(mi[1]) != sx.q(mst):
                        chk.violation('theorem:cornerpeak_integral_is_iterated_difference', 'model-integral-vs-stencil', {'cls': cls},
                                      dict(c, boxes=[[a, b]], points=[]), dict(coded=str(sx.q(mi[1])), stencil=str(sx.q(mst))), failing_input=False)
            sm = syres.get(ci)
            if sm is not None and (sx.is_err(sm) or isinstance(sm, tuple)):
                if bi == 0:
                    chk.violation('corr:C12/integral', 'model-rejects', {'cls': cls}, c, dict(model=str(sm)[:300]), failing_input=False)
            elif sm is not None:
                sv = sym_box_value(cls, sm, bi)      # the executable symbolic / exact model of the class (phase 3)
                if sv is not None:
                    exact, exact_tol = sv[0], (1e-9, sv[1])
                    chk.count('symbolic-model:integral-cls=' + cls)
            verdict = judge_integral(chk, c, bi, spec, d, a, b, rec['analytic'], rec['numeric'], exact, cur, fixd, exact_tol)
            chk.count('integral:verdict=' + str(verdict))
            for path, th in rec['through'].items():
                chk.count('integral:quadrature-through-object-%s' % path)
            if m is not None and m[0] == 1 and rec['analytic']['st'] == 'ok':
                av = rec['analytic']['vals'][0]
                mc = cur[0] == 0 and close(av, qf(cur[1]), 1e-12, 1e-13)
                mf = fixd[0] == 0 and close(av, qf(fixd[1]), 1e-12, 1e-13)
                chk.count('integral:formula=' + ('coded+fixed' if mc and mf else 'coded-only' if mc else 'fixed-only' if mf else 'unmodelled'))
            elif m is not None and m[0] == 1 and rec['analytic']['st'] == 'none':
                chk.count('integral:formula=' + ('coded-only' if cur[0] == 1 else 'unmodelled'))
        # history clauses on the one object
        rep = set()
        for kind, sig, hist, detail in oracle_integral_history(c, r):
            key = (kind, str(sorted(sig.items())))
            if key in rep:
                continue
            rep.add(key)
            chk.violation('oracle:integral_history_independent' if kind != 'value-differs' else 'oracle:cache_transparent',
                          kind, sig, hist, detail)
        sm = syres.get(ci)
        if sm is not None and not sx.is_err(sm) and not isinstance(sm, tuple):
            for k_, (p, pr) in enumerate(zip(c['points'], r['points'])):
                mvp = sym_point_value(cls, sm, k_)
                if mvp is None or pr['st'] != 'ok':
                    continue
                if not all(close(x_, mvp) for x_ in pr['eval']):
                    chk.violation('corr:C12/symbolic_eval', 'symbolic-eval-differs', {'cls': cls}, dict(c, boxes=[], points=[p]),
                                  dict(impl=pr['eval'], model=mvp), failing_input=False)
                else:
                    chk.count('symbolic-model:eval-cls=' + cls)
        cp = cpres.get(ci)
        if cp is not None and not sx.is_err(cp) and not isinstance(cp, tuple):
            for p, pr, (me, mv) in zip(c['points'], r['points'], cp[0]):
                if pr['st'] != 'ok' or me[0] != 0:
                    continue
                if me != mv:
                    chk.violation('theorem:cornerpeak_vectorized_eq_scalar', 'model-eval-vs-vectorised', {'cls': cls},
                                  dict(c, boxes=[], points=[p]), dict(eval=str(me), vec=str(mv)), failing_input=False)
                if len(pr['eval']) != 1 or not close(pr['eval'][0], qf(me[1])):
                    chk.violation('corr:C12/cornerpeak_eval', 'cornerpeak-eval-differs', {'cls': cls}, dict(c, boxes=[], points=[p]),
                                  dict(impl=pr['eval'], model=str(sx.q(me[1]))), failing_input=False)
                else:
                    chk.count('cornerpeak:eval-vs-exact-model')
        # point values of the polynomial family: exact against the model (dyadic inputs)
        seen_in_dim = {}
        for p, pr in zip(c['points'], r['points']):
            d = len(p)
            m = ms.get(d)
            k = seen_in_dim.get(d, 0)
            seen_in_dim[d] = k + 1
            if m is None or m[0] != 1:
                continue
            mp = m[1][k]
            if pr['st'] != 'ok' or mp[0][0] != 0:
                if not (pr['st'] != 'ok' and mp[0][0] != 0):
                    chk.violation('corr:C12/poly_eval', 'poly-eval-status', {'cls': cls}, dict(c, boxes=[], points=[p]),
                                  dict(impl=pr, model=str(mp)))
                continue
            mv = sx.q(mp[0][1]); den = sx.q(mp[1])
            got = pr['eval']
            if len(got) != 1 or not close(got[0], float(mv)):
                chk.violation('corr:C12/poly_eval', 'poly-eval-differs', {'cls': cls}, dict(c, boxes=[], points=[p]),
                              dict(impl=got, model=str(mv)))
            else:
                chk.count('poly-eval:' + ('exact' if sx.rat(got[0]) == mv else 'rounded'))
            if mv != den:
                chk.violation('theorem:eval_is_denotation', 'model-eval-vs-denotation', {'cls': cls}, dict(c, boxes=[], points=[p]),
                              dict(eval=str(mv), denotation=str(den)), failing_input=False)
        nontrivial = max(bdims + [0]) >= 2 or cls in ('Polynomial1d', 'LambdaFunction')
        if nontrivial:
            keys.append(('integral', cls, str(spec['p']), str(c['boxes'])))
        if len(samples) < 2 and max(bdims + [0]) >= 2 and cls.startswith('Genz') and r['boxes'][0]['analytic']['st'] == 'ok' and r['boxes'][0].get('numeric'):
            samples.append(dict(fn=spec, box=c['boxes'][0], analytic=r['boxes'][0]['analytic']['vals'], numeric=r['boxes'][0]['numeric']['vals']))
    return keys, samples


def replay_integral(c):
    rc = 0
    st, r = run_impl(impl_integral, [c], limit=300)[0]
    print('impl:', st, str(r)[:3000])
    w = poly_wire(c['fn'])
    if w is not None:
        R = sx.rat
        for d in sorted(set(len(a) for a, _ in c['boxes'])):
            print('model, dimension %d (coded, fixed, formal):' % d,
                  run_model(12, [(1, [w, d, [[R(x) for x in p] for p in c['points'] if len(p) == d],
                                      [[[R(x) for x in a], [R(x) for x in b]] for a, b in c['boxes'] if len(a) == d]])])[0])
    cpm = None
    if c['fn']['cls'] == 'GenzCornerPeak':
        R = sx.rat
        cpm = run_model(12, [(4, [[R(x) for x in c['fn']['p']['coeffs']], [], [[[R(x) for x in a], [R(x) for x in b]] for a, b in c['boxes']]])])[0]
        print('exact GenzCornerPeak model (analytic integral as coded, iterated difference / dim!):',
              [[str(sx.q(mi[1])) if mi[0] == 0 else 'error', str(sx.q(ms))] for mi, ms in cpm[1]] if not sx.is_err(cpm) else cpm)
    if st == 'ok':
        for bi, ((a, b), rec) in enumerate(zip(c['boxes'], r['boxes'])):
            an, nu = rec['analytic'], rec['numeric']
            if nu is None and cpm is not None and not sx.is_err(cpm) and cpm[1][bi][0][0] == 0 and an['st'] == 'ok':
                ex = float(sx.q(cpm[1][bi][0][1]))
                ok = close(an['vals'][0], ex, 1e-6, 1e-13)
                print('box', a, b, 'analytic', an['vals'], 'exact model', ex, '->', 'holds' if ok else 'VIOLATED')
                rc = rc or (0 if ok else 1)
                continue
            if nu is None:
                print('box', a, b, 'analytic', an, '(reference: formal integral of the model)')
                continue
            ok = an['st'] == 'ok' and all(close(x, y, 2e-2 if nu['rough'] else 1e-6, 1e-6)
                                          for x, y in zip(an['vals'] * (len(nu['vals']) if len(an['vals']) == 1 else 1), nu['vals']))
            print('box', a, b, 'analytic', an, 'numeric', nu['vals'], '->', 'holds' if ok else 'VIOLATED')
            rc = rc or (0 if ok else 1)
        for kind, sig, hist, detail in oracle_integral_history(c, r):
            print('history clause violated:', kind, sig, str(detail)[:600])
            rc = 1
    return rc


ALL_CACHE_CLASSES = ['ConstantValue', 'FunctionDiagonalDiscont', 'FunctionShift', 'FunctionUQNormal', 'FunctionUQNormal2',
                     'FunctionUQWeighted', 'FunctionCantileverBeamD', 'CustomFunction', 'FunctionG', 'FunctionGShifted',
                     'FunctionUQ', 'FunctionUQShifted', 'FunctionUQ2', 'FunctionCompose', 'FunctionLinear', 'FunctionMultilinear',
                     'FunctionPower', 'FunctionPolysPCE', 'FunctionInverseTransform', 'FunctionCustom', 'FunctionConcatenate',
                     'FunctionPolynomial', 'LambdaFunction', 'Polynomial1d', 'GenzCornerPeak', 'GenzProductPeak',
                     'GenzOszillatory', 'GenzDiscontinious', 'GenzDiscontinious2', 'GenzC0', 'GenzGaussian', 'FunctionExpVar',
                     'FunctionGeneralizedNormal']


def run(chk):
    gen_info = _c12_gen.regenerate(chk)      # source-derived cache machine: regenerated BEFORE the obligations are rebuilt
    chk.coq_obligations(extra_props=_c12_gen.EXTRA_PROPS)
    gen_problem = _c12_gen.diagnose(chk, gen_info)
    rng = chk.rng
    n_cache = chk.n(740, 17000)
    n_int = chk.n(300, 6000)
    ccases = list(CORPUS_CACHE)
    # every built-in class at least a few times, then free choice
    reps = chk.n(3, 40)
    for cls in ALL_CACHE_CLASSES:
        for _ in range(reps):
            ccases.append(gen_cache_case(rng, cls))
        if cls in DIMFREE:
            for _ in range(chk.n(2, 20)):            # one object, points of several dimensions
                ccases.append(gen_cache_case(rng, cls, multidim=True))
    # short structured histories on one object (single-path entries read by the batch path and vice versa)
    for pat in PATTERNS:
        for cls in SCALAR_RETURNING[:chk.n(6, 12)] + LIST_RETURNING:
            for _ in range(chk.n(1, 12)):
                ccases.append(gen_structured_case(rng, pat, cls))
    # one object of a dimension-free class used for problems of different dimension
    for pat in XPATTERNS:
        for cls in DIMFREE:
            for _ in range(chk.n(1, 10)):
                ccases.append(gen_xdim_case(rng, pat, cls))
    # batch sizes beyond the usual internal thresholds; several objects alive; debug flag
    for size in BIG_SIZES:
        for cls in rng.sample(ALL_CACHE_CLASSES, chk.n(2, 8)) + rng.sample(list(VEC_OVERRIDE), chk.n(1, 4)):
            if cls not in ('GenzDiscontinious2', 'FunctionCantileverBeamD', 'FunctionUQNormal'):
                ccases.append(gen_cache_case(rng, cls, big=size, multidim=False))
    for cls in rng.sample(ALL_CACHE_CLASSES, chk.n(12, 33)):
        ccases.append(gen_cache_case(rng, cls, multiobj=True))
    for cls in VEC_OVERRIDE:
        for _ in range(chk.n(2, 12)):
            ccases.append(gen_cache_case(rng, cls, debug=True))
    for cls in ALL_CACHE_CLASSES:                     # number types of the points and of the parameters
        for _ in range(chk.n(4 if cls in VEC_OVERRIDE else 2, 24)):
            ccases.append(gen_dtype_case(rng, cls))
    while len(ccases) < n_cache:
        x = rng.random()
        ccases.append(gen_structured_case(rng) if x < 0.2 else gen_xdim_case(rng) if x < 0.35 else gen_dtype_case(rng) if x < 0.45 else gen_cache_case(rng))
    icases = list(CORPUS_INTEGRAL)
    for cls in INTEGRAL_CLASSES:
        for _ in range(chk.n(4, 60)):
            icases.append(gen_integral_case(rng, cls))
        if cls in FREE_INTEGRAL:
            for _ in range(chk.n(3, 30)):             # one object, boxes of different dimension
                icases.append(gen_integral_case(rng, cls, multidim=True))
    for cls in HIGH_DIM_REFERENCE:                    # every dimension 5..8 for the classes with a cheap high-dimensional reference
        for d_ in (5, 6, 7, 8):
            for _ in range(chk.n(1, 6)):
                icases.append(gen_integral_case(rng, cls, force_d=d_))
    while len(icases) < n_int:
        icases.append(gen_integral_case(rng))
    import time
    t0 = time.time()
    k1, s1 = check_cache_cases(chk, ccases)
    t1 = time.time()
    k2, s2 = check_integral_cases(chk, icases)
    t2 = time.time()
    hcases, k3 = check_huge_cases(chk)
    chk.extra['phase_seconds'] = dict(cache_histories=round(t1 - t0, 1), integrals=round(t2 - t1, 1), huge_batches=round(time.time() - t2, 1),
                                      shrinking=round(_SHRINK_T[0], 1))
    chk.extra['tolerances'] = dict(values_rtol=RTOL, values_atol=ATOL, integral_rtol=INT_RTOL, scipy_quadrature_rtol=1e-6,
                                   simplex_indicator_rtol=2e-2)
    _c12_gen.finish(chk, gen_info, gen_problem)     # broken source-derived obligation and no concrete failing input found above
    chk.record_cases(len(ccases), k1,
                     'cache machine: every built-in class of Function.py (33), point dimension 1..5, 1..30 ops from {single, batch, empty batch, '
                     'direct eval_vectorized on 2-d and nested 3-d arrays, reset, deactivate, size, debug flag, switch to another live object '
                     'of the class} over pools of 1..10 dyadic points per dimension (repeats, 0.0/-0.0, near-duplicates 2^-30 apart), input '
                     'forms tuple/list/ndarray/python ints/np.float64/tuple of tuples/integer array; dimension-free classes (ConstantValue, '
                     'FunctionExpVar, FunctionDiagonalDiscont, CustomFunction, FunctionCustom, Polynomial1d, LambdaFunction and wrappers of '
                     'them) with points of 2..3 DIFFERENT dimensions on ONE object; batch sizes 64/200/1024/1025/2049; plus structured short '
                     'histories on one object (singles then the same points as one batch, batch + remaining singles then all as one batch, '
                     'repeated identical batches, batch after reset, batch in dimension d1 then batch/vec/singles in dimension d2, twins) on '
                     'scalar- and list-returning classes; reference = scalar eval of fresh instances; non-trivial = >= 4 ops with at least '
                     'one single and one batch call; distinct by (class, params, ops)', s1)
    chk.record_cases(len(icases), k2,
                     'analytic integrals: 23 classes offering one, histories on ONE object: evaluations, 1..5 dyadic boxes (unit cube only '
                     'where the class asserts it; boxes sharing a corner, repeated box, zero-width box), evaluations again; d 1..3, 4 for the '
                     'smooth Genz classes/ExpVar, 4..8 for the polynomial family and GenzCornerPeak (reference: exact Coq model), 5..8 for '
                     'ProductPeak/C0/Gaussian/ExpVar (product of one-variable quadratures of eval) and Oszillatory (complex product); dimension-free '
                     'classes with boxes of 2..3 different dimensions on one object; each analytic value compared with quadrature of the scalar '
                     'eval of a fresh instance, with the analytic value of a fresh instance and with the same quadrature through the object\'s '
                     'eval_vectorized and batch call; non-trivial = some box with d >= 2 (or a 1-d-only class); distinct by (class, params, boxes)', s2)
    chk.record_cases(len(hcases), k3,
                     'huge batches: sizes 2^k + r (k = 8..17, r in {-1,0,1,3,1000}, one per k) and gate+1, gate+3, 2*gate+1 for every integer >= 64 '
                     'found at run time among the class attributes / module constants of Function.py, n distinct points, classes GenzGaussian / '
                     'FunctionPolynomial / FunctionExpVar / GenzDiscontinious2; batch call, cache hits and direct eval_vectorized compared with the '
                     'scalar eval of a fresh instance on a strided sample + first/last 3 points + neighbours of every power of two; counter = n',
                     [dict(n=c_['n'], why=c_['why'], cls=c_['fn']['cls']) for c_ in hcases[-3:]])


def replay(chk, rep):
    c = rep['case']
    rc = 0
    if c['kind'] == 'huge':
        st, r = run_impl(impl_huge, [c], limit=240)[0]
        print('impl:', st, 'batch of %d points (huge_points(n=%d, dim=%d)), class %s' % (c['n'], c['n'], c['dim'], c['fn']))
        if st != 'ok':
            print(r); return 1
        for kind, sig, detail in oracle_huge(c, r):
            print('property predicate violated:', kind, sig, detail); rc = 1
        if not rc:
            print('property predicate: holds')
        return rc
    if c['kind'] == 'cache':
        st, r = run_impl(impl_cache, [c])[0]
        print('impl:', st)
        if st != 'ok':
            print(r); return 1
        print('objects:', case_specs(c))
        for op, s in zip(c['ops'], r['steps']):
            print('  ', str(op)[:200], '->', str({k: v for k, v in s.items() if k not in ('dict', 'sizes')})[:300])
        per = project_ops(c)
        for oi, idxs in enumerate(per):
            if not idxs or any(not finite(v) for _k, v in r['tables'][oi]):
                continue
            etab = r['tables'][oi]
            vtab = _canon_vtab(None, etab, r['vtables'][oi])
            mr = run_model(12, [(2, [r['olens'][oi], [1, 1], 1 if r['calls_check_vectorization'] else 0, _tab_wire(etab), _tab_wire(vtab),
                                     [wire_op(c['ops'][i]) for i in idxs]])])[0]
            print('model of Function.__call__ for object %d (steps %s):' % (oi, idxs),
                  str([[m[0], m[1]] for m in mr])[:1500] if not sx.is_err(mr) else mr)
        for kind, sig, step, detail in oracle_cache(c, r):
            print('property predicate violated at step', step, ':', kind, sig, detail)
            rc = 1
        if not rc:
            print('property predicate: holds')
    else:
        rc = replay_integral(c)
    return rc
