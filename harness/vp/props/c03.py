"""C03: dimension-wise refinement always yields a valid nested combination.
Same scripted histories as C06 on the real SpatiallyAdaptiveSingleDimensions2; additionally compared after every step:
the stripes (coordinates and levels) of get_point_coord_for_each_dim for every (dimension, level) and for every component
of the scheme, and the points of get_points_component_grid for every component. Oracle on the implementation alone:
stripes sorted / end points / nested / depend only on (d,l), component = tensor product, coefficient sum 1 at every point
of the combined grid, combined interpolant = function at every point of the combined grid."""
from .. import sx
from . import dimwise as dw
from . import c06
from . import _c06_gen

ASSUMPTIONS = c06.ASSUMPTIONS + [
    'version-3 rounding sv/dim - int(sv/dim) > d/dim is decided in binary64: for dim <= 6 and sv <= 64 the model decides with Coq '
    'primitive floats (table computed by Coq, C03_version3_rounding_is_binary64_bounded); beyond that the decision is the exact one',
    'the caches max_level_dict / subtraction_value_cache are not modelled (emptied in every refinement_postprocessing); the harness '
    'queries every (dimension, level) and every component after each step, so stale cache entries would show up as differences',
    'interpolation at the combined grid points is checked on the implementation only (tolerance 1e-9 * (1+|f|))',
]
FIELDS = c06.FIELDS + ['stripes', 'points']
PROP = 3
INTERP_TOL = 1e-9


def compare_interpolation(chk, cases, info, verbose=False):
    """combined interpolant of the implementation at off-grid points vs the model (Model/DimWiseInterp.v), rounded class"""
    from ..model import run_model
    idx = [i for i, inf in enumerate(info) if inf is not None and inf['ok'] and 'interp_points' in inf['result']]
    res = run_model(PROP, [dw.model_interp_case(cases[i], info[i]['result']) for i in idx])
    rc = 0
    for i, mr in zip(idx, res):
        c, r = cases[i], info[i]['result']
        fixed_case = dict(c, bens=c06.jsonable_bens(r['bens']), steps=len(r['bens']))
        if sx.is_err(mr) or isinstance(mr, tuple):
            chk.violation('corr:C03/interpolant', 'model-rejects', {}, fixed_case, dict(model=str(mr)[:200]), failing_input=False)
            rc = 1
            continue
        for p, iv, mv in zip(r['interp_points'], r['interp_values'], mr):
            mv = float(sx.q(mv))
            chk.count('interpolant_values_compared')
            if verbose:
                print('  x =', [str(x) for x in p], 'impl', iv, 'model', mv)
            if abs(iv - mv) > INTERP_TOL * (1.0 + abs(mv)):
                chk.violation('corr:C03/interpolant', 'interpolant-differs', dict(rebalancing=c['rebalancing'], boundary=c['boundary']),
                              fixed_case, dict(point=[str(x) for x in p], impl=iv, model=mv, poly=str(r['poly'])), failing_input=False)
                rc = 1
                break
    return rc


def run(chk):
    # source-derived model (shared with C06): modify_according_to_levelvec / get_max_level decide the stripes
    gen_info = _c06_gen.regenerate(chk)
    chk.coq_obligations(extra_props=_c06_gen.EXTRA_PROPS)
    gen_problem = _c06_gen.diagnose(chk, gen_info)
    n = chk.n(100, 1500)
    nd = chk.n(600, 4000)
    ni = chk.n(700, 6000)
    ni2 = chk.n(150, 1500)
    cases = (c06.corpus(2) + [dw.add_sweep_axes(chk.rng, dw.gen_case(chk.rng, chk.tier, 2), 2) for _ in range(n)]
             + [dw.add_sweep_axes(chk.rng, dw.gen_case_deep(chk.rng, chk.tier, 1, lift_bias=0.5), 1) for _ in range(nd)]
             + [dw.add_sweep_axes(chk.rng, dw.gen_case_install(chk.rng, chk.tier, 1), 1) for _ in range(ni)]
             + [dw.add_sweep_axes(chk.rng, dw.gen_case_install(chk.rng, chk.tier, 2), 2) for _ in range(ni2)])
    info = c06.evaluate(chk, cases, 2, FIELDS, PROP, extra_oracle=dw.oracle_state_c03)
    compare_interpolation(chk, cases, info)
    keys, samples = [], []
    seen_fam = set()
    for c, inf in zip(cases, info):
        if inf is None:
            continue
        r = inf['result']
        if 'exc' in r:
            continue
        last = r['states'][-1]
        fam = c.get('family') or 'mixed'
        chk.count('component_grids', len(last['scheme']))
        if 'points' in last:
            chk.count('component_points', sum(len(p[1]) for p in last['points']))
        chk.count('stripes_compared', sum(len(per) for s_ in r['states'] for per in s_.get('stripes', [])))
        if 'interp' in r:
            worst, wp, cnt = r['interp']
            chk.count('interpolation_points', cnt)
            if worst > INTERP_TOL:
                chk.violation('oracle:C03/interpolation', 'interpolant-differs-at-grid-point',
                              dict(rebalancing=c['rebalancing'], start='installed-state' if c.get('install') else 'initial-state'),
                              dict(c, bens=c06.jsonable_bens(r['bens']), steps=len(r['bens'])),
                              dict(worst_error=worst, point=wp), failing_input=True)
        nsplit = sum(len(s) for st in r['selected'] for s in st)
        if len(r['bens']) >= 1 and (nsplit >= 2 or fam == 'install') and len(last['scheme']) >= 3:
            keys.append((fam, c['dim'], c['lmin'], c['lmax'], c['version'], c['rebalancing'], c['boundary'], str(r['selected']),
                         str((c.get('install') or {}).get('trees'))))
        if fam not in seen_fam and len(r['bens']) >= (2 if fam != 'install' else 1):
            seen_fam.add(fam)
            samples.append(dict(family=fam, case={k: c[k] for k in ('dim', 'lmin', 'lmax', 'version', 'rebalancing', 'boundary')},
                                split_positions_per_step=r['selected'], final_lmax=last['lmax'],
                                scheme=str(last['scheme'])[:300], stripes_dim0=str(last['stripes'][0])[:300]))
    chk.record_cases(len(cases), keys,
                     'scripted dimension-wise histories in the three families of C06 (mixed: d 2..4, public API, stripes + points + interpolant; '
                     'deep: d=2, lmin 1..3, 8-16 directly driven steps, stripes of every (d,l) and of every component; install: 1-3 steps from '
                     'randomly constructed valid deep states, stripes (part of them also points + interpolant)); after every step stripes for '
                     'every (d,l), stripes and (where observed) points of every component grid compared exactly with the model; '
                     'non-trivial = >=2 splits (install: >=1 step) and >=3 component grids; distinct by options, installed trees and split positions. Lessons sweep on top of every family (drawn independently per case): observer calls between the '
                     'steps with argument-immutability / returned-object-overwrite probes, bounds / level vectors / points as other object kinds, far-off / tiny / '
                     'huge boxes and benefit magnitudes 2^-60..2^30, further performSpatiallyAdaptiv legs on the same object, a second object alive in the '
                     'process, d = 1, a few trees with 200-300 intervals (histogram keys axis:*)',
                     samples)
    _c06_gen.finish(chk, gen_info, gen_problem)


def replay(chk, rep):
    c = dict(rep['case'])
    c['what'] = max(1, c.get('what', 2))
    info = c06.evaluate(chk, [c], 2, FIELDS, PROP, extra_oracle=dw.oracle_state_c03)
    inf = info[0]
    if inf is None:
        print('implementation raised:', chk.violations[-1]['detail'])
        return 1
    r = inf['result']
    rc = 0
    if 'exc' in r:
        print('step', r['exc'][3], 'implementation raised', r['exc'][:3])
        return 1
    for step, s in enumerate(r['states']):
        why = dw.oracle_state_c06(c, s) or dw.oracle_state_c03(c, s)
        print('step', step, 'sizes', [len(t) for t in s['trees']], 'lmax', s['lmax'], 'components', len(s['scheme']),
              'property predicate:', why or 'holds')
        if why:
            rc = 1
    if 'interp' in r:
        print('interpolation at %d combined grid points: worst error %g' % (r['interp'][2], r['interp'][0]))
        if r['interp'][0] > INTERP_TOL:
            rc = 1
    if inf['ok']:
        rc = max(rc, compare_interpolation(chk, [c], [inf], verbose=True))
    diff = dw.compare_states(c, r['states'], inf['model'], FIELDS)
    print('model vs implementation:', 'agree' if diff is None else 'differ at step %s field %s\n impl  %s\n model %s' % (
        diff[0], diff[1], str(diff[2])[:600], str(diff[3])[:600]))
    return rc
