"""C17: source-derived model of three statement blocks of the right-hand-side re-use code (DESIGN.md 0.5.1 scheme).
coq/Gen/DensityReuseGen.v is regenerated from the working tree ($VERIF_REPO) by harness/translate/py2gallina_c17.py (a front end of
the shared translator, which is imported, not modified) under the build lock, before the proof obligations are (re)built;
Props/C17gen.v holds the equivalence theorems (generated = Model/DEReuse.v)."""
import fcntl
import hashlib
import os
import re
import subprocess
import sys
from ..core import ROOT, COQ
from .. import gen

TRANSLATOR = os.path.join(ROOT, 'harness', 'translate', 'py2gallina_c17.py')
GEN_FILE = 'DensityReuseGen.v'
GEN_CHAIN = ['Base/PyC17.v', 'Gen/DensityReuseGen.v', 'Proofs/GenDensityReuseEq.v', 'Proofs/GenDensityReuseEq2.v', 'Proofs/GenDensityReuseEq3.v', 'Props/C17gen.v']
EXTRA_PROPS = ('C17gen',)
ASSUMPTION = gen.ASSUMPTION + (
    '; C17 front end (py2gallina_c17.py): three STATEMENT BLOCKS are cut out of the ASTs of DensityEstimation.__init__ (self.data_bins = '
    '[{} for d in range(dim)]), find_data_in_domain (the scan of the sorted positions and data_ranges[d]) and calculate_B_dimension_wise '
    '(b = np.zeros(N) and the re-use branch from the copy loop on) and translated as synthetic methods; expressions outside the subset are '
    'replaced by VIEWS that are part of the trusted scheme (documented in the front end, printed in the generated file): attributes and '
    'locals of the surrounding method become parameters, find_enclosing_bin(..) = [0, len(sorted_data[d])], `x in list of float tuples` = '
    'py_c17_tuple_in (coq/Base/PyC17.v), a bare tuple as truth value = len > 0, the calls find_data_in_domain(domain) / '
    'hat_function_non_symmetric(hat, domain, data[x]) / the label lookup become table lookups selected[i] / hatvals[i][x] / signs[x], the '
    'unused get_hat_domain statement is dropped; phase 4: the hand-over block of post_processing and find_closest_old_B (without its unused tail) are '
    'translated as well - dictionaries as association lists keyed by the int tuples max_levels instead of the strings str(max_levels), '
    'attribute paths as names, D.keys() as D.items(), a read-only alias inlined, float membership / index through coq/Base/PyC17.v, the '
    'nested-list append as a local row; `Ret Some x` of the shared renderer is re-parenthesised; post_processing is proved equal to Model.post, '
    'find_closest_old_B is proved equal to Model.find_closest (phase 5)')


def regenerate(chk):
    with open(os.path.join(ROOT, '.buildlock'), 'w') as lk:
        fcntl.flock(lk, fcntl.LOCK_EX)
        p = subprocess.run([sys.executable, TRANSLATOR], capture_output=True, text=True)
    msg = '\n'.join(l for l in p.stderr.splitlines() if 'conda' not in l).strip()
    chk.checker_cmds.append('/venv/bin/python harness/translate/py2gallina_c17.py  (regenerates coq/Gen/%s from sparseSpACE/GridOperation.py)' % GEN_FILE)
    info = dict(rc=p.returncode, message=msg, target='densityreuse')
    try:
        src = open(os.path.join(COQ, 'Gen', GEN_FILE)).read()
        info['generated_sha256'] = hashlib.sha256(src.encode()).hexdigest()
        info['translated'] = re.findall(r'^\(\* (\S+:\d+-\d+)  (\S+) \*\)$', src, re.M)
    except OSError:
        pass
    chk.extra['source_derived_model'] = info
    return info


def diagnose(chk, info):
    """after coq_obligations: None when the generated model is in place and proved equivalent, else the reason"""
    problem = gen.gen_diagnosis(chk, info, GEN_CHAIN)
    gen.report(chk, info, problem, 'C17_gen_*')
    return problem


def finish(chk, info, problem):
    gen.finish_gen(chk, info, problem)
