"""Histories of several calls ("legs") on ONE adaptive object - shared by C13 and C14.

A leg is a JSON-able dict describing ONE call of the public API the way a user would write it:
    {'tol': 0.01, 'min': 1, 'max': 80}            keys that are ABSENT are arguments left to their defaults
    {'max': 120}                                   continue_adaptive_refinement(max_evaluations=120)
    {'tol': 0, 'max': 300, 'style': 'pos'}         all four arguments passed positionally
    {'save': True, ...}                            save_to_file / restore_from_file before this call (C14)
The first leg of a history is performSpatiallyAdaptiv, every further leg continue_adaptive_refinement on the same object.

The defaults are those of the documented signatures (the Gallina model Model/Driver.v carries the same constants:
default_tol_perform / default_tol_continue, min_evaluations=1, max_evaluations=None)."""
from fractions import Fraction

from .. import sx
from . import _adaptive as A

PERFORM_DEFAULT_TOL = 10 ** -2
CONTINUE_DEFAULT_TOL = 10 ** -3


def resolve(leg, first):
    """(tol, min, max) the call means; max None = no limit."""
    tol = leg['tol'] if 'tol' in leg else (PERFORM_DEFAULT_TOL if first else CONTINUE_DEFAULT_TOL)
    return (tol, leg.get('min', 1), leg.get('max'))


def is_perform(legs, i):
    """call i of the history is performSpatiallyAdaptiv: the first call, or a RESTART = performSpatiallyAdaptiv(..., refinement_container=
    <the refinement of the stopped run>) on the same object ('restart': True; the documented way to continue from an old refinement)"""
    return i == 0 or bool(legs[i].get('restart'))


def resolve_history(legs):
    return [resolve(l, is_perform(legs, i)) for i, l in enumerate(legs)]


def py_stop(lim, e, p):
    tol, mn, mx = lim
    return (e <= tol and p >= mn) or (mx is not None and p > mx)


def first_stop(lim, errs, pts, start=0):
    for k in range(start, len(errs)):
        if py_stop(lim, errs[k], pts[k]):
            return k
    return None


def grows(l1, l2):
    """limits only grow from l1 to l2 (Model/Driver.v limits_grow)"""
    if not (l2[0] <= l1[0] and l1[1] <= l2[1]):
        return False
    if l1[2] is None:
        return l2[2] is None
    return l2[2] is None or l1[2] <= l2[2]


def positions(legs, errs, pts):
    """stop position of every leg on ONE underlying stream (each leg re-evaluates the position it starts from); None from the
    first leg on that runs out of the stream"""
    out, pos = [], 0
    for lim in resolve_history(legs):
        if pos is None:
            out.append(None)
            continue
        pos = first_stop(lim, errs, pts, pos)
        out.append(pos)
    return out


def leg_key(leg):
    return 'tol:%s,min:%s,max:%s' % tuple('implicit' if k not in leg else ('None' if leg[k] is None else 'given') for k in ('tol', 'min', 'max'))


# ---------------------------------------------------------------------------------------------- wire encoding


def enc_args(leg, position=0):
    """wire form of the arguments; the model resolves defaults by position (first call: performSpatiallyAdaptiv, later calls:
    continue_adaptive_refinement) - for a restart leg at a later position the default tolerance of performSpatiallyAdaptiv is made explicit"""
    tol = [sx.rat(leg['tol'])] if 'tol' in leg else ([sx.rat(PERFORM_DEFAULT_TOL)] if (position > 0 and leg.get('restart')) else [])
    return [tol, [int(leg['min'])] if 'min' in leg else [], [int(leg['max'])] if leg.get('max') is not None else []]


def enc_stream(stream):
    """stream: [(err_hex, sur_hex, points)]"""
    return [[sx.rat(A.unfl(e)), sx.rat(A.unfl(s)), int(p)] for e, s, p in stream]


def dec_limits(l):
    return (sx.q(l[0]), l[1], l[2][0] if l[2] else None)


def same_limits(model_lim, py_lim):
    """resolved limits of the model (wire) == resolved limits of the harness"""
    return dec_limits(model_lim) == (sx.rat(py_lim[0]), py_lim[1], py_lim[2])


# ---------------------------------------------------------------------------------------------- calls


def call_perform(sa, eo, case, leg, **kw):
    """performSpatiallyAdaptiv with exactly the arguments the leg names"""
    args = {}
    if 'tol' in leg:
        args['tol'] = leg['tol']
    if 'min' in leg:
        args['min_evaluations'] = leg['min']
    if 'max' in leg:
        args['max_evaluations'] = leg['max']
    args.update(kw)
    with A.quiet():
        if leg.get('style') == 'pos' and 'tol' in leg:
            tol = args.pop('tol')
            return sa.performSpatiallyAdaptiv(case['lmin'], case['lmax'], eo, tol, print_output=False, do_plot=False, **args)
        return sa.performSpatiallyAdaptiv(case['lmin'], case['lmax'], eo, print_output=False, do_plot=False, **args)


def call_continue(sa, leg):
    """continue_adaptive_refinement with exactly the arguments the leg names (keywords, or all four positionally)"""
    with A.quiet():
        if leg.get('style') == 'pos' and all(k in leg for k in ('tol', 'min', 'max')):
            return sa.continue_adaptive_refinement(leg['tol'], None, leg['max'], leg['min'])
        args = {}
        if 'tol' in leg:
            args['tol'] = leg['tol']
        if 'min' in leg:
            args['min_evaluations'] = leg['min']
        if 'max' in leg:
            args['max_evaluations'] = leg['max']
        return sa.continue_adaptive_refinement(**args)


# ---------------------------------------------------------------------------------------------- drawing limits


def draw_leg(rng, errs, pts, start, cont=False):
    """one leg with limits drawn INDEPENDENTLY of the other legs: placed on observed values (ties), 0, defaults left implicit.
    errs/pts: underlying stream; start: position the leg starts from (only used to bias towards interesting placements)."""
    n = len(errs)
    lo = start if (rng.random() < 0.55 and start < n) else 0
    j = rng.randrange(lo, n)
    i = rng.randrange(lo, n)
    m = rng.randrange(lo, n)
    finite = [e for e in errs if e == e and abs(e) != float('inf')]
    big = max(finite + [1.0]) * 2 + 1
    r = rng.random()
    if cont and rng.random() < 0.10:
        # continuation that ignores the error: tol = 0 and a (usually larger) point budget
        leg = {'tol': rng.choice([0, 0.0]), 'min': 1, 'max': pts[rng.randrange(min(start, n - 1), n)] - rng.choice([0, 1])}
    elif rng.random() < 0.06:
        # a tolerance that is simply small (or large) in absolute terms, whatever the magnitudes of the problem are
        leg = {'tol': 2.0 ** rng.choice([-60, -40, -30, -27, -20, -10, 10]), 'min': 1, 'max': pts[m] - rng.choice([0, 1])}
    elif r < 0.12:
        leg = {'tol': -1.0, 'min': 1, 'max': pts[j]}                 # points == max does not stop
    elif r < 0.24:
        leg = {'tol': -1.0, 'min': 1, 'max': pts[j] - 1}
    elif r < 0.40:
        leg = {'tol': errs[j], 'min': 1, 'max': pts[-1] - 1}         # error == tol stops
    elif r < 0.48:
        leg = {'tol': errs[j], 'min': 1, 'max': None}
    elif r < 0.58:
        leg = {'tol': big, 'min': pts[j], 'max': pts[-1] - 1}        # points == min suffices
    elif r < 0.64:
        leg = {'tol': big, 'min': pts[j] + 1, 'max': pts[-1] - 1}
    elif r < 0.70:
        leg = {'tol': big, 'min': rng.choice([0, 1, pts[0]]), 'max': rng.choice([None, pts[-1]])}    # met at the first evaluation
    elif r < 0.74:
        leg = {'tol': -1.0, 'min': 1, 'max': rng.choice([pts[0] - 1, 0])}                            # met at the first evaluation (maximum)
    elif r < 0.86:
        leg = {'tol': rng.choice([0, 0.0]), 'min': rng.choice([1, 1, pts[i]]), 'max': pts[m] - rng.choice([0, 1])}   # tol = 0: refine until the budget is used up
    else:
        leg = {'tol': errs[j], 'min': pts[i], 'max': pts[m] - rng.choice([0, 1])}
    # between two observed errors / slightly above (no tie)
    if rng.random() < 0.15 and leg['tol'] not in (-1.0, 0, big) and leg['tol'] == leg['tol'] and abs(leg['tol']) != float('inf'):
        leg['tol'] = leg['tol'] * rng.choice([1.5, 0.75, 1.0000001])
    # arguments left implicit
    if rng.random() < 0.16:
        del leg['tol']
    if 'min' in leg and ((leg['min'] == 1 and rng.random() < 0.5) or rng.random() < 0.06):
        del leg['min']
    if (leg.get('max') is None and rng.random() < 0.6) or rng.random() < 0.06:
        leg.pop('max', None)
    if rng.random() < 0.15:
        leg['style'] = 'pos'
    return leg


def draw_history(rng, errs, pts, nlegs=None, force_max=False):
    """a history whose every leg stops inside the stream (errs, pts): legs are drawn independently, then a leg that would run
    out of the stream gets an explicit max_evaluations that stops it at the last stream position at the latest"""
    if nlegs is None:
        r = rng.random()
        nlegs = 1 if r < 0.30 else 2 if r < 0.65 else 3 if r < 0.88 else 4
    legs, pos = [], 0
    for i in range(nlegs):
        leg = draw_leg(rng, errs, pts, pos, cont=(i > 0))
        # a call whose outcome depends on the DEFAULT tolerance of its entry point: tolerance left implicit while the stream still has
        # an error within a factor 30 around that default ahead (so another default would stop elsewhere)
        dflt = PERFORM_DEFAULT_TOL if i == 0 else CONTINUE_DEFAULT_TOL
        ahead = [j for j in range(pos, len(errs)) if dflt / 30 < errs[j] < dflt * 30]
        if ahead and rng.random() < 0.22:
            leg = {'max': pts[-1] - 1}
            if rng.random() < 0.3:
                leg['min'] = 1
        if force_max and leg.get('max') is None:
            leg['max'] = pts[-1] - 1
        k = first_stop(resolve(leg, i == 0), errs, pts, pos)
        if k is None:
            leg['max'] = pts[-1] - 1
            k = first_stop(resolve(leg, i == 0), errs, pts, pos)
        legs.append(leg)
        pos = k
    return legs


# ---------------------------------------------------------------------------------------------- magnitudes

SCALES = [-60, -40, -30, -27, -20, -10, 0, 0, 0, 0, 0, 10, 30]


def scale_comps(rng, comps):
    """integrand components across magnitudes: every coefficient of component i is multiplied by 2**k_i (dyadic: all values stay exact);
    the components share one scale or mix scales. Returns (scaled comps, [k_i])."""
    if rng.random() < 0.45:
        ks = [0] * len(comps)
    elif rng.random() < 0.55:
        ks = [rng.choice(SCALES)] * len(comps)
    else:
        ks = [rng.choice(SCALES) for _ in comps]
    return [[[c * 2.0 ** k, e] for c, e in terms] for terms, k in zip(comps, ks)], ks


def magnitude(case):
    """a bound for the size of the result components (sum of |coefficient| * sup|monomial| * volume): the scale rounding is relative to"""
    vol = 1.0
    for aa, bb in zip(case['a'], case['b']):
        vol *= (bb - aa)
    out = 0.0
    for terms in case['comps']:
        m = 0.0
        for c, e in terms:
            t = abs(float(c))
            for aa, bb, ee in zip(case['a'], case['b'], e):
                t *= max(abs(aa), abs(bb), 1) ** ee
            m += t
        out = max(out, m * vol)
    return out
