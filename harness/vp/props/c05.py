"""C05: the reported result is the combination of the component results.

Every case drives one strategy step by step (perform with max_evaluations=1, then refine(); continue ...) with a logging
Integration subclass.  At every stop the reported value is compared with
  (a) the extracted accumulator model (Model/Accum.v) replayed on the raw event log and on the derived driver steps,
  (b) an independent recomputation (fresh grid, fresh integrand: sum over current areas and component grids of
      coefficient * grid.integrate),
  (c) evaluate_final_combi() on a deep copy, (d) an uninterrupted second run with reevaluate_at_end=True,
  (e) get_points_and_weights() applied to the integrand (standard, dimension-wise), combined by the model,
  (f) the value returned at earlier stops (aliasing of the live accumulator)."""
import copy
import random
from fractions import Fraction

from .. import sx
from ..impl import run_impl
from ..model import run_model
from . import _adaptive as A

ASSUMPTIONS = [
    'exact-arithmetic model; integrands are integer-coefficient polynomials on dyadic boxes so that almost all float sums are exact; '
    'comparisons use |impl-model| <= 1e-12*(sum of absolute contributions + 1)',
    'the per-component partial results (grid.integrate) are inputs of the model (captured from the run); their correctness is C08/C09',
    'extend-split in its default coarsening version 0, split_single_dim=False',
]

TOL = Fraction(1, 10 ** 12)

# ---------------------------------------------------------------------------------------------- generator


def gen_case(rng, quick=True):
    r = rng.random()
    strat = 'es' if r < 0.42 else 'dw' if r < 0.78 else 'std' if r < 0.90 else 'da'
    dim = 2 if rng.random() < 0.75 else 3
    a = [rng.choice([0, 0, -1]) for _ in range(dim)]
    b = [rng.choice([1, 1, 2]) for _ in range(dim)]
    nout = rng.choice([1, 1, 2, 3])
    comps = A.gen_comps(rng, dim, nout)
    case = dict(strat=strat, a=a, b=b, comps=comps, ref=None, norm=0, boundary=True, lmin=1, lmax=2, seed=rng.randrange(1 << 30))
    if strat in ('dw', 'es'):
        case['warmup'] = rng.random() < 0.35
    if strat == 'dw':
        case.update(version=rng.choice([6, 6, 3, 7]), rebalancing=rng.random() < 0.6, boundary=rng.random() < 0.8,
                    errcalc='lib' if rng.random() < 0.3 else ['scripted', rng.randrange(1 << 20)],
                    steps=rng.choice([1, 2, 3, 4, 5]) if dim == 2 else rng.choice([1, 2, 3]), cap=400 if dim == 2 else 700)
    elif strat == 'es':
        case.update(lmax=rng.choice([2, 2, 3]), nrbe=rng.choice([1, 1, 2]), auto=rng.random() < 0.25,
                    errcalc='lib' if rng.random() < 0.3 else ['scripted', rng.randrange(1 << 20)],
                    steps=rng.choice([1, 2, 3, 4]) if dim == 2 else rng.choice([1, 2]), cap=500 if dim == 2 else 900)
        if rng.random() < 0.45:
            # other local grids; the high-order ones (is_high_order_grid) switch extend-split to parent estimation and, with
            # automatic_extend_split, to the extend_error_correction bookkeeping that works on copies of area.value
            kind = rng.choice(['cc', 'cc', 'cc', 'lagrange2', 'lagrange3', 'bspline3', 'simpson'])      # (Leja: minutes per run)
            case.update(grid=kind, auto=rng.random() < 0.7, errcalc='lib', steps=rng.choice([2, 3, 4]) if kind in ('cc', 'simpson') else rng.choice([2, 3]))
            if kind[:3] in ('lag', 'bsp'):
                case.update(a=case['a'][:2], b=case['b'][:2], lmax=3, comps=[[[c, e[:2]] for c, e in t] for t in comps], cap=900)
            else:
                case.update(lmax=rng.choice([2, 3]) if dim == 2 else 2)
    elif strat == 'da':
        case['a'] = [0] * dim
        case['comps'] = [[[abs(c), e] for c, e in terms] for terms in comps]
        case['ref'] = [float(x) if x != 0 else 1.0 for x in A.poly_integral(case['comps'], case['a'], b)]
        case['max_points'] = rng.choice([30, 60, 100]) if dim == 2 else rng.choice([100, 200])
    else:
        case.update(lmin=rng.choice([1, 1, 2]), boundary=rng.random() < 0.8)
        case['lmax'] = case['lmin'] + (rng.choice([0, 1, 2, 3]) if dim == 2 else rng.choice([0, 1, 2]))
        if rng.random() < 0.3:
            case.update(grid=rng.choice(['cc', 'simpson', 'leja']), boundary=True)
        if rng.random() < 0.5:
            l0 = rng.choice([1, 2, 3])
            case['pre'] = [l0, l0 + rng.choice([0, 1, 2])]
    return case

# ---------------------------------------------------------------------------------------------- implementation


def _fresh_total(sc, case):
    """independent recomputation on a (deep copy of the) instance: fresh grid + fresh integrand, the instance only tells
    the structure (areas, scheme, coarsened level vectors / 1D point sets)"""
    import numpy as np
    from sparseSpACE.Grid import TrapezoidalGrid, GlobalTrapezoidalGrid
    f = A.make_function(case['comps'])
    a = np.array([float(x) for x in case['a']]); b = np.array([float(x) for x in case['b']])
    total = np.zeros(len(case['comps']))
    scale = np.zeros(len(case['comps']))
    strat = case['strat']
    if strat == 'dw':
        for cg in sc.scheme:
            coords, levels, _ = sc.get_point_coord_for_each_dim(cg.levelvector)
            g = GlobalTrapezoidalGrid(a, b, boundary=case.get('boundary', True), modified_basis=False)
            g.set_grid(coords, levels)
            x = np.asarray(g.integrate(f, cg.levelvector, a, b), dtype=float).ravel() * cg.coefficient
            total += x; scale += abs(x)
    elif strat == 'es':
        g = A.make_local_grid(case, a, b)
        for area in sc.refinement.get_objects():
            area.levelvec_dict = {}
            for cg in sc.scheme:
                lv, do = sc.coarsen_grid(cg.levelvector, area)
                if do:
                    x = np.asarray(g.integrate(f, lv, area.start, area.end), dtype=float).ravel() * cg.coefficient
                    total += x; scale += abs(x)
    else:
        g = A.make_local_grid(case, a, b)
        for cg in sc.scheme:
            x = np.asarray(g.integrate(f, cg.levelvector, a, b), dtype=float).ravel() * cg.coefficient
            total += x; scale += abs(x)
    return A.vec(total), A.vec(scale)


def _rule(sc, case):
    """published quadrature rule: per component grid (coefficient, [(f(point) per output, weight)]) and the combined rule"""
    with A.quiet():
        pts, wts = sc.get_points_and_weights()
        comp = []
        for cg in sc.scheme:
            p, w = sc.get_points_and_weights_component_grid(cg.levelvector)
            comp.append((A.fl(cg.coefficient), [[float(c) for c in q] for q in p], [A.fl(x) for x in w]))
    return dict(points=[[float(c) for c in q] for q in pts], weights=[A.fl(x) for x in wts], comp=comp)


def _stop_record(sa, op, case, ret, with_rule):
    import numpy as np
    rec = dict(reported=A.vec(ret[3]), integral=A.vec(op.integral), evaluations=A.fl(ret[4]))
    rv = sa.refinement.value
    rec['container'] = A.vec(rv) if np.ndim(rv) > 0 and np.size(rv) == len(case['comps']) else None
    if case['strat'] == 'es':
        rec['areas'] = sorted([op.aid(o), A.vec(o.value)] for o in sa.refinement.get_objects())
        rec['new'] = sorted(op.aid(o) for o in sa.get_new_areas())
    sc = copy.deepcopy(sa)
    rec['fresh'], rec['scale'] = _fresh_total(sc, case)
    sc = copy.deepcopy(sa)
    try:
        with A.quiet():
            fin = sc.evaluate_final_combi()
        rec['final_combi'] = A.vec(fin[0])
        with A.quiet():
            fin2 = sc.evaluate_final_combi()
        rec['final_combi_twice'] = A.vec(fin2[0])
    except Exception as e:  # observable
        rec['final_combi'] = 'exc:' + type(e).__name__
    if with_rule:
        try:
            rec['rule'] = _rule(copy.deepcopy(sa), case)
        except Exception as e:
            rec['rule'] = 'exc:%s:%s' % (type(e).__name__, str(e)[:100])
    return rec


def impl_run(case):
    import numpy as np
    strat = case['strat']
    LI = A.make_logging_integration()
    if strat == 'std':
        sc, op, f, _ = A.build(case, integration_cls=LI)
        with A.quiet():
            if case.get('pre'):       # an earlier request with other levels on the same object
                sc.perform_operation(case['pre'][0], case['pre'][1])
            r = sc.perform_operation(case['lmin'], case['lmax'])
        fresh, scale = _fresh_total(sc, case)
        return dict(reported=A.vec(r[2]), fresh=fresh, scale=scale, rule=_rule(sc, case),
                    scheme=[[[int(x) for x in g.levelvector], A.fl(g.coefficient)] for g in sc.scheme])
    if strat == 'da':
        da, op, f, _ = A.build(case, integration_cls=LI)
        A.guard_dimadaptive(da)
        with A.quiet():
            r = da.perform_combi(case['lmin'], case['lmax'], -1.0, max_number_of_points=case['max_points'])
        fresh, scale = _fresh_total(da, case)
        return dict(reported=A.vec(r[2]), fresh=fresh, scale=scale,
                    scheme=[[[int(x) for x in g.levelvector], A.fl(g.coefficient)] for g in da.scheme])
    sa, op, f, eo = A.build(case, integration_cls=LI)
    offset = 0
    if case.get('warmup'):
        # short history on ONE operation/grid/function object (as the repo's tests reuse them): a first instance is run for one
        # refinement step, then the instance under test is created on the same operation
        A.perform(sa, eo, case, -1.0, 1, 1)
        with A.quiet():
            sa.refine()
        A.cont(sa, -1.0, 1, 1)
        sa, op, f, eo = A.build(case, op=op)
        offset = len(op.events)
    stops, rets = [], []
    ret = A.perform(sa, eo, case, -1.0, 1, 1)
    for k in range(case['steps'] + 1):
        op.events.append([6])
        rets.append((ret[3], np.array(ret[3], copy=True)))
        rec = _stop_record(sa, op, case, ret, with_rule=(strat == 'dw'))
        rec['aliased'] = [i for i, (live, snap) in enumerate(rets[:-1]) if not np.array_equal(live, snap)]
        stops.append(rec)
        if k == case['steps'] or sa.get_total_num_points() > case['cap']:
            break
        mark = len(op.events)
        with A.quiet():
            sa.refine()
        rec['added'] = sorted(op.aid(o) for o in sa.get_new_areas()) if strat == 'es' else []
        ret = A.cont(sa, -1.0, 1, 1)
    # (d) uninterrupted runs with the same final limits, with and without re-evaluation at the end
    limit = int(sa.get_total_num_points()) - 1
    out = dict(stops=stops, events=op.events[offset:], points=int(sa.get_total_num_points()))
    for flag in (False, True):
        sb, opb, fb, eob = A.build(case)
        rb = A.perform(sb, eob, case, -1.0, 1, limit, reevaluate_at_end=flag)
        out['single_%s' % flag] = A.vec(rb[3])
    return out

# ---------------------------------------------------------------------------------------------- model encoding / comparison


def q(h):
    return sx.rat(A.unfl(h))


def close(a_hex, m, scale):
    v = A.unfl(a_hex)
    if v != v or abs(v) == float('inf'):
        return False
    return abs(Fraction(v) - m) <= TOL * (scale + 1)


def events_for_component(events, j):
    out = []
    for e in events:
        if e[0] == 2:
            out.append([2, e[1], q(e[2][j]), e[3], e[4]])
        elif e[0] == 5:
            out.append([5, q(e[1][j])])
        else:
            out.append(e)
    return out


def steps_for_component(r, j):
    """derive the driver steps (Model/Accum.v dstep) from the raw log: evaluate(parts of the new areas) / refine(removed, added)"""
    steps, initial = [], None
    parts, order = {}, []
    removed = None
    stop = 0
    dw = False
    for e in r['events']:
        if e[0] == 1:
            if e[1] not in parts:
                parts[e[1]] = []; order.append(e[1])
        elif e[0] == 2:
            parts.setdefault(e[1], []).append(q(e[2][j]))
            if e[1] not in order:
                order.append(e[1])
        elif e[0] == 4:
            dw = True; parts = {'dw': []}
        elif e[0] == 5:
            parts['dw'].append(q(e[1][j]))
        elif e[0] == 3:
            removed = e[1]
        elif e[0] == 6:
            if dw:
                steps.append([2, parts['dw']])
            else:
                if initial is None:
                    initial = list(order)
                else:
                    steps.append([1, removed or [], r['stops'][stop - 1].get('added', [])])
                steps.append([0, [[i, parts[i]] for i in order]])
            parts, order, removed = {}, [], None
            stop += 1
    return initial or [], steps


def run_adaptive_checks(chk, case, r, mjobs):
    nout = len(case['comps'])
    base = len(mjobs)
    for j in range(nout):
        mjobs.append((0, events_for_component(r['events'], j)))
        initial, steps = steps_for_component(r, j)
        mjobs.append((1, [0, initial, steps]))
        mjobs.append((1, [1, initial, steps]))     # repaired variant: new-object marker cleared once the new areas are evaluated

    def evaluate(mres):
        sig = {'strat': case['strat']}
        strat = case['strat']
        fcase = dict(case)
        nst = len(r['stops'])
        for k, st in enumerate(r['stops']):
            fk = dict(case, steps=k)
            scale = [Fraction(A.unfl(x)) for x in st['scale']]
            rep = st['reported']
            # ---- property predicate on the implementation alone
            indep_ok = all(close(rep[j], q(st['fresh'][j]), scale[j]) for j in range(nout))
            if not indep_ok:
                chk.violation('oracle:combination', 'combination-differs', sig, fk,
                              dict(stop=k, reported=[A.unfl(x) for x in rep], independent=[A.unfl(x) for x in st['fresh']]))
            if st['container'] is not None and st['container'] != st['integral']:
                chk.violation('oracle:combination', 'container-differs', sig, fk,
                              dict(stop=k, refinement_value=[A.unfl(x) for x in st['container']], integral=[A.unfl(x) for x in st['integral']]))
            if isinstance(st.get('final_combi'), str):
                chk.violation('oracle:reevaluation', 'reevaluation-raises', dict(sig, via='evaluate_final_combi'), fk, dict(stop=k, exc=st['final_combi']))
            else:
                if not all(close(st['final_combi'][j], q(rep[j]), scale[j]) for j in range(nout)):
                    chk.violation('oracle:reevaluation', 'reevaluation-differs', dict(sig, via='evaluate_final_combi'), fk,
                                  dict(stop=k, reported=[A.unfl(x) for x in rep], evaluate_final_combi=[A.unfl(x) for x in st['final_combi']]))
                elif not all(close(st['final_combi_twice'][j], q(rep[j]), scale[j]) for j in range(nout)):
                    chk.violation('oracle:reevaluation', 'reevaluation-not-idempotent', dict(sig, via='evaluate_final_combi'), fk,
                                  dict(stop=k, reported=[A.unfl(x) for x in rep], second=[A.unfl(x) for x in st['final_combi_twice']]))
            if st['aliased']:
                chk.violation('oracle:combination', 'result-aliased', sig, dict(case, steps=k),
                              dict(stop=k, why='the array returned at stop(s) %s changed when the run was continued' % st['aliased']))
            if 'rule' in st:
                check_rule(chk, case, fk, st['rule'], rep, scale, sig, mjobs_late, k)
            # ---- model: raw replay and driver-step replay
            for j in range(nout):
                snaps = mres[base + 3 * j]
                trace = mres[base + 3 * j + 1]
                trace_clear = mres[base + 3 * j + 2]
                if sx.is_err(snaps) or k >= len(snaps):
                    chk.violation('corr:C05/replay', 'model-rejects', sig, fk, dict(model=str(snaps)[:300]), failing_input=False)
                    return
                total, cont, areas, _new = snaps[k]
                if not close(st['integral'][j], sx.q(total), scale[j]) or not close(rep[j], sx.q(total), scale[j]):
                    chk.violation('corr:C05/replay', 'running-total-differs', sig, fk,
                                  dict(stop=k, component=j, model=float(sx.q(total)), impl=A.unfl(st['integral'][j]), reported=A.unfl(rep[j])),
                                  failing_input=not indep_ok)
                if st['container'] is not None and not close(st['container'][j], sx.q(cont), scale[j]):
                    chk.violation('corr:C05/replay', 'container-value-differs', sig, fk,
                                  dict(stop=k, component=j, model=float(sx.q(cont)), impl=A.unfl(st['container'][j])), failing_input=False)
                if strat == 'es':
                    ma = {i: sx.q(v) for i, v in areas}
                    for i, v in st['areas']:
                        if i not in ma or not close(v[j], ma[i], scale[j]):
                            chk.violation('corr:C05/replay', 'area-value-differs', sig, fk,
                                          dict(stop=k, component=j, area=i, model=str(ma.get(i)), impl=A.unfl(v[j])), failing_input=False)
                            break
                    if sorted(ma) != [i for i, _ in st['areas']]:
                        chk.violation('corr:C05/replay', 'area-set-differs', sig, fk, dict(stop=k, model=sorted(ma), impl=[i for i, _ in st['areas']]),
                                      failing_input=False)
                # driver steps: state after the evaluate step of stop k
                idx = k if strat == 'dw' else 2 * k
                if sx.is_err(trace) or idx >= len(trace):
                    chk.violation('corr:C05/steps', 'model-rejects', sig, fk, dict(model=str(trace)[:300]), failing_input=False)
                    return
                t2, c2, a2, n2 = trace[idx]
                if sx.q(t2) != sx.q(total) or (strat == 'es' and sorted((i, sx.q(v)) for i, v in a2) != sorted((i, sx.q(v)) for i, v in areas)):
                    chk.violation('corr:C05/steps', 'driver-steps-differ-from-event-log', sig, fk,
                                  dict(stop=k, component=j, steps_total=float(sx.q(t2)), log_total=float(sx.q(total))), failing_input=False)
                if strat == 'es' and sorted(n2) != st['new']:
                    # the code as it is leaves the marker set until the next refine(); the repaired driver (fixes/C14-*) clears it
                    if not sx.is_err(trace_clear) and idx < len(trace_clear) and sorted(trace_clear[idx][3]) == st['new']:
                        chk.count('new-marker-cleared-after-evaluation (repaired driver)')
                    else:
                        chk.violation('corr:C05/steps', 'new-marker-differs', sig, fk, dict(stop=k, model=sorted(n2), impl=st['new']), failing_input=False)
        # (d) re-evaluation at the end of an uninterrupted run
        last = r['stops'][-1]
        scale = [Fraction(A.unfl(x)) for x in last['scale']]
        if not all(close(r['single_False'][j], q(last['reported'][j]), scale[j]) for j in range(nout)):
            chk.count('single-run-differs-from-stepwise (C14 territory)')
        if not all(close(r['single_True'][j], q(r['single_False'][j]), scale[j]) for j in range(nout)):
            chk.violation('oracle:reevaluation', 'reevaluation-differs', dict(sig, via='reevaluate_at_end'), dict(case, steps=nst - 1, limit=r['points'] - 1),
                          dict(without=[A.unfl(x) for x in r['single_False']], with_reevaluate_at_end=[A.unfl(x) for x in r['single_True']]))
        chk.traces += 1
    mjobs_late = []
    evaluate.late = mjobs_late
    return evaluate


def check_rule(chk, case, fk, rule, rep, scale, sig, late, k):
    """(e) published points and weights reproduce the reported integral; the combined rule is the model's combination of the
    component rules.  Evaluated exactly in Fractions; the model job is queued in `late` and checked by finish_rules."""
    nout = len(case['comps'])
    if isinstance(rule, str):
        chk.violation('oracle:rule', 'rule-raises', sig, fk, dict(stop=k, exc=rule))
        return
    pts, wts = rule['points'], [q(w) for w in rule['weights']]
    if len(pts) != len(wts):
        chk.violation('oracle:rule', 'rule-differs', sig, fk, dict(stop=k, why='%d points, %d weights' % (len(pts), len(wts))))
        return
    vals = [A.exact_eval(case['comps'], p) for p in pts]
    applied = [sum(w * v[j] for w, v in zip(wts, vals)) for j in range(nout)]
    ok = all(close(rep[j], applied[j], scale[j]) for j in range(nout))
    if not ok:
        chk.violation('oracle:rule', 'rule-differs', sig, fk,
                      dict(stop=k, reported=[A.unfl(x) for x in rep], rule_applied=[float(x) for x in applied], npoints=len(pts)))
    late.append(dict(fk=fk, k=k, sig=sig, rule=rule, applied=applied, ok=ok, rep=rep, scale=scale))


def run_simple_checks(chk, case, r, mjobs):
    nout = len(case['comps'])
    late = []

    def evaluate(mres):
        sig = {'strat': case['strat']}
        scale = [Fraction(A.unfl(x)) for x in r['scale']]
        if not all(close(r['reported'][j], q(r['fresh'][j]), scale[j]) for j in range(nout)):
            chk.violation('oracle:combination', 'combination-differs', sig, case,
                          dict(reported=[A.unfl(x) for x in r['reported']], independent=[A.unfl(x) for x in r['fresh']]))
        if 'rule' in r:
            check_rule(chk, case, case, r['rule'], r['reported'], scale, sig, late, 0)
        chk.traces += 1
    evaluate.late = late
    return evaluate


def finish_rules(chk, todo):
    """second model pass: combined rule of every recorded rule (sub 2), component 0 .. nout-1"""
    jobs, meta = [], []
    for ev in todo:
        for item in getattr(ev, 'late', []):
            rule = item['rule']
            nout = len(item['applied'])
            for j in range(nout):
                sch = []
                for c, pts, wts in rule['comp']:
                    case = item['fk']
                    sch.append([q(c), [[A.exact_eval(case['comps'], p)[j], q(w)] for p, w in zip(pts, wts)]])
                jobs.append((2, sch)); meta.append((item, j))
    res = run_model(5, jobs)
    for (item, j), m in zip(meta, res):
        if sx.is_err(m):
            chk.violation('corr:C05/rule', 'model-rejects', item['sig'], item['fk'], dict(model=str(m)[:200]), failing_input=False)
            continue
        weights, applied, combined = m
        mw = [sx.q(w) for w in weights]
        iw = [q(w) for w in item['rule']['weights']]
        if mw != iw:
            chk.violation('corr:C05/rule', 'combined-weights-differ', item['sig'], item['fk'],
                          dict(stop=item['k'], model=[float(x) for x in mw][:12], impl=[float(x) for x in iw][:12]), failing_input=not item['ok'])
        if sx.q(applied) != sx.q(combined) or sx.q(applied) != item['applied'][j]:
            chk.violation('corr:C05/rule', 'rule-value-differs', item['sig'], item['fk'],
                          dict(stop=item['k'], model=float(sx.q(applied)), harness=float(item['applied'][j])), failing_input=not item['ok'])
        chk.count('rules-combined-by-model')


CORPUS = [
    # exemplars of the known findings: evaluate_final_combi / reevaluate_at_end double the result; returned array is the live accumulator
    dict(strat='dw', a=[0, 0], b=[1, 1], comps=[[[1, [2, 0]], [3, [1, 1]]], [[2, [0, 2]], [1, [0, 0]]]], ref=None, norm=0, boundary=True, lmin=1, lmax=2,
         seed=1, version=6, rebalancing=True, errcalc='lib', steps=2, cap=400),
    dict(strat='es', a=[0, 0], b=[1, 1], comps=[[[1, [2, 0]], [3, [1, 1]]], [[2, [0, 2]], [1, [0, 0]]]], ref=None, norm=0, boundary=True, lmin=1, lmax=2,
         seed=2, nrbe=1, auto=False, errcalc='lib', steps=2, cap=500),
    dict(strat='es', a=[-1, -1], b=[1, 1], comps=[[[4, [0, 0]]]], ref=None, norm=0, boundary=True, lmin=1, lmax=2, seed=942289536, nrbe=1,
         auto=False, errcalc='lib', steps=0, cap=500),                                   # exemplar C05-final-combi-doubles
    dict(strat='es', a=[0, 0], b=[1, 1], comps=[[[4, [0, 2]]]], ref=None, norm=0, boundary=True, lmin=1, lmax=3, seed=59545343, nrbe=2,
         auto=False, errcalc=['scripted', 322535], steps=1, cap=500),                    # exemplar C05-result-aliases-accumulator
    dict(strat='es', a=[0, 0], b=[2, 1], comps=[[[3, [1, 2]]]], ref=None, norm=0, boundary=True, lmin=1, lmax=2, seed=92740285, nrbe=1,
         auto=True, errcalc='lib', steps=2, cap=500, grid='cc'),                         # high-order grid + automatic extend/split
    dict(strat='std', a=[0, 0], b=[1, 1], comps=[[[1, [2, 0]], [3, [1, 1]]]], ref=None, norm=0, boundary=True, lmin=1, lmax=3, seed=3, pre=[2, 3]),
    dict(strat='da', a=[0, 0], b=[1, 1], comps=[[[1, [2, 0]], [3, [1, 1]]]], ref=[13 / 12], norm=0, boundary=True, lmin=1, lmax=2, seed=4, max_points=60),
]


def run(chk):
    chk.coq_obligations()
    n = chk.n(170, 8000)
    cases = CORPUS + [gen_case(chk.rng, chk.quick) for _ in range(n)]
    impl = run_impl(impl_run, cases, limit=200)
    mjobs, todo, keys, samples = [], [], [], []
    for c, (st, r) in zip(cases, impl):
        chk.count('strat=' + c['strat']); chk.count('dim=%d' % len(c['a'])); chk.count('history=%s' % ('warmup' if c.get('warmup') else 'pre' if c.get('pre') else 'fresh')); chk.count('grid=%s%s' % (c.get('grid', 'trap'), '+auto' if c.get('auto') else ''))
        if st != 'ok':
            where = r[1] if r else ''
            if st == 'exc' and r[0] == 'RuntimeError' and 'refinement selection does not terminate' in r[2]:
                chk.count('dimadaptive-selection-hang (all surpluses zero; outside this property)')
                continue
            if st == 'exc' and r[0] == 'IndexError' and 'Function.py' in where:
                chk.count('library-exception:empty-batch (C12)')
                continue
            chk.violation('corr:C05/replay', 'impl-exception', {'strat': c['strat'], 'exc': r[0] if r else st}, c, dict(impl=str(r)))
            continue
        if c['strat'] in ('dw', 'es'):
            todo.append(run_adaptive_checks(chk, c, r, mjobs))
            ns = len(r['stops'])
            chk.count('stops=%d' % ns)
            if ns >= 2:
                keys.append((c['strat'], c.get('grid', 'trap'), c.get('auto'), str(c['comps']), str(c.get('errcalc')), c.get('version'), c['lmax'], ns, str(c['a']), str(c['b'])))
            if len(samples) < 3 and ns >= 3:
                samples.append(dict(strat=c['strat'], comps=c['comps'], reported=[[A.unfl(x) for x in s['reported']] for s in r['stops']],
                                    independent=[[A.unfl(x) for x in s['fresh']] for s in r['stops']], events=len(r['events'])))
        else:
            todo.append(run_simple_checks(chk, c, r, mjobs))
            if len(r['scheme']) >= 3:
                keys.append((c['strat'], str(c['comps']), c['lmin'], c['lmax'], str(c['a']), str(c['b'])))
    mres = run_model(5, mjobs)
    for ev in todo:
        ev(mres)
    finish_rules(chk, todo)
    chk.record_cases(len(cases), keys,
                     'step-wise driven dimension-wise / extend-split(v0) runs with event log (d 2..3, lmax 2..3, 1..5 refinement steps, library and '
                     'scripted error calculators, vector polynomial integrands on dyadic boxes) + StandardCombi (lmin 1..2, span 0..3) + '
                     'DimAdaptiveCombi; non-trivial = at least one refinement step (adaptive) or >= 3 component grids (standard/dim-adaptive); '
                     'distinct by (strategy, integrand, box, options, steps)', samples)


def replay(chk, rep):
    c = rep['case']
    st, r = run_impl(impl_run, [c], limit=600)[0]
    print('impl:', st, str(r)[:3000])
    if st != 'ok':
        return 1
    mjobs = []
    ev = (run_adaptive_checks if c['strat'] in ('dw', 'es') else run_simple_checks)(chk, c, r, mjobs)
    mres = run_model(5, mjobs)
    print('model:', str(mres)[:2000])
    ev(mres)
    finish_rules(chk, [ev])
    for v in chk.violations:
        print('property predicate / correspondence:', v['check'], v['kind'], v['sig'], str(v['detail'])[:600])
    print('verdict:', 'VIOLATED' if chk.violations else 'holds')
    return 1 if chk.violations else 0
