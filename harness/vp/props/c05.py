"""C05: the reported result is the combination of the component results.

Every case drives one strategy step by step (perform with max_evaluations=1, then refine(); continue ...) with a logging
operation (Integration / UncertaintyQuantification subclass) and a strategy subclass that marks the driver's own evaluation
(compute_solutions): every evaluate_area call outside of it is a SIDE evaluation (twin errors of split_single_dim, temporary
parent areas), every evaluate_area_for_error_estimates call an ESTIMATE evaluation.  At every stop the reported value is
compared with
  (a) the extracted accumulator model (Model/Accum.v) replayed on the event log - main evaluations as the model prescribes them
      (added to area, container and result), side evaluations as ASide (area value only), estimates as AEstimate (nothing) -
      and on the derived driver steps with and without the side evaluations (Accum.strip_sides); the flags the implementation
      actually passed are compared with the model's prescription; the verified invariant check inv_checkb on every snapshot,
  (b) an independent recomputation (fresh grid, fresh integrand/operation: sum over current areas and component grids of the
      CURRENT scheme of coefficient * grid.integrate; for coarsening version 0 with an independent coarsening rule),
  (c) evaluate_final_combi() on a deep copy (once and twice), (d) uninterrupted second runs with reevaluate_at_end on/off and
      with solutions_storage,
  (e) get_points_and_weights() applied to the integrand (standard, dimension-wise), combined by the model,
  (f) the value returned at earlier stops (aliasing of the live accumulator).
The generator draws every constructor option / code path that reaches the accumulation and runs on the unchanged tree (see
OPTIONS below; the option histogram goes into the evidence); options that make the unchanged code raise are listed in EXCLUDED and
probed on every run."""
import copy
import itertools
import random
from fractions import Fraction

from .. import sx
from ..impl import run_impl
from ..model import run_model
from . import _adaptive as A

ASSUMPTIONS = [
    'exact-arithmetic model; integrands are integer-coefficient polynomials on dyadic boxes so that almost all float sums are exact; '
    'comparisons use |impl-model| <= 1e-12*(sum of absolute contributions + 1)',
    'the per-component partial results (grid.integrate) are inputs of the model (captured from the run); their correctness is C08/C09',
    'main / side classification of evaluate_area calls: a call is a main evaluation iff it is made inside compute_solutions of the '
    'strategy instance (marked by a harness subclass), independent of the flags that are passed',
    'extend-split coarsening versions 1, 2 and 3 (outside the quantifier of the property: default version 0) keep per-area results that are stale '
    'after a scheme change on the unchanged tree: for them only the bookkeeping (replay, flags, invariant, sum of the stored area results) is compared',
]

TOL = Fraction(1, 10 ** 12)
# public calls made on the live object between two legs (see _observe)
OBSERVERS = ['final', 'final', 'final2', 'result', 'npoints', 'pw', 'call', 'check', 'points']
NODAL_GLOBAL = ('trap', 'simpson', 'romberg', 'highorder')      # the published rule is claimed for nodal (non-hierarchical) grids only

# options that reach the accumulation of the reported result and the values the generator draws (histogram in the evidence)
OPTIONS = {
    'es': ['version 0..3', 'automatic_extend_split', 'split_single_dim', 'number_of_refinements_before_extend 1..3', 'lmin 1..2', 'lmax',
           'local grid trap/cc/simpson/lagrange2/lagrange3/bspline3 (high-order grids switch to parent estimation)', 'boundary',
           'recalculate_frequently (refinements_for_recalculate lowered)', 'refinement_container (restart from the refinement reached)', 'error calculator lib/scripted', 'warm-up instance on the same operation',
           'reevaluate_at_end', 'solutions_storage', 'evaluate_final_combi'],
    'dw': ['version 0..9', 'rebalancing', 'chebyshev_points', 'dim_adaptive', 'use_volume_weighting', 'force_balanced_refinement_tree', 'margin',
           'global grid trap/simpson/romberg/lagrange2/bspline3/highorder', 'boundary', 'operation Integration/UncertaintyQuantification '
           '(GlobalTrapezoidalGridWeighted, grid_surplusses)', 'recalculate_frequently', 'refinement_container (restart)', 'reevaluate_at_end', 'solutions_storage'],
    'cell': ['lmin 1..2', 'dimension 2..3', 'error calculator lib/scripted'],
    'std': ['lmin', 'lmax', 'local grid trap/cc/simpson/leja', 'boundary', 'earlier request on the same object'],
    'da': ['max_number_of_points', 'earlier perform_combi on the same object'],
}
# options that make the UNCHANGED code raise: outside the envelope, probed on every run (an option that starts to run is reported in
# the evidence so that it can be brought in)
EXCLUDED = [
    dict(name='es no_initial_splitting=True', probe=dict(no_initial_splitting=True), expect='AssertionError',
         why='SpatiallyAdaptiveExtendScheme.initialize_refinement: assert False in the noInitialSplitting branch'),
    dict(name='es dim_adaptive=True', probe=dict(es_dim_adaptive=True), expect='TypeError',
         why="initialize_refinement passes lists to CombiScheme.init_adaptive_combi_scheme ('>=' not supported between list and int)"),
    dict(name='dw GlobalTrapezoidalGrid(modified_basis=True, boundary=True)', probe=None, expect='AssertionError', why='Grid.py: the modified basis needs boundary=False'),
    dict(name='dw modified_basis=True, boundary=False', probe=None, expect='AttributeError', why='np.float removed from the pinned numpy'),
    dict(name='dw GlobalRombergGrid(boundary=False) / GlobalBalancedRombergGrid', probe=None, expect='AssertionError', why='Grid.py asserts / unbalanced grid'),
    dict(name='dw force_balanced_refinement_tree with scripted errors', probe=None, expect='AssertionError', why='find_missing_point assertion on arbitrary refinement histories'),
    dict(name='es version=3 + split_single_dim (some histories)', probe=None, expect='AssertionError',
         why='set_split_benefit: num_comparison > num_points_extend_parent fails (spatiallyAdaptiveExtendSplit.py:592); such cases are counted, not compared'),
    dict(name='LejaGrid in adaptive runs', probe=None, expect='(minutes per run)', why='cost only; used for StandardCombi'),
]

# ---------------------------------------------------------------------------------------------- generator


def _symmetric_comps(rng, dim, nout):
    """integrands that are symmetric under every permutation of the variables, or multilinear (exactly integrated by the
    trapezoidal rule): the twin errors of split_single_dim tie, so that an area is split in several dimensions at once"""
    comps = []
    for _ in range(nout):
        if rng.random() < 0.35:
            terms = [[rng.choice([1, 2, 3, -1]), [rng.choice([0, 1]) for _ in range(dim)]] for _ in range(rng.randrange(1, 3))]
        else:
            terms = []
            for _ in range(rng.randrange(1, 3)):
                exps = sorted(rng.choice([0, 1, 2, 2, 3]) for _ in range(dim))
                c = rng.choice([1, 2, 3, -1, 4])
                for perm in sorted(set(itertools.permutations(exps))):
                    terms.append([c, list(perm)])
        comps.append(terms)
    return comps


def gen_case(rng, quick=True):
    r = rng.random()
    strat = 'es' if r < 0.46 else 'dw' if r < 0.74 else 'cell' if r < 0.80 else 'std' if r < 0.91 else 'da'
    dim = 2 if rng.random() < 0.75 else 3
    a = [rng.choice([0, 0, -1]) for _ in range(dim)]
    b = [rng.choice([1, 1, 2]) for _ in range(dim)]
    nout = rng.choice([1, 1, 2, 3])
    comps = A.gen_comps(rng, dim, nout)
    case = dict(strat=strat, a=a, b=b, comps=comps, ref=None, norm=0, boundary=True, lmin=1, lmax=2, seed=rng.randrange(1 << 30))
    if strat in ('dw', 'es'):
        case['warmup'] = rng.random() < 0.3
        # performSpatiallyAdaptiv(..., refinement_container=<the refinement reached>) after the last stop: every object is evaluated again
        case['restart'] = rng.random() < 0.15
    if strat == 'dw':
        case.update(version=rng.choice([6, 6, 6, 3, 7, 2, 8, 0, 1, 4, 5, 9]), rebalancing=rng.random() < 0.6, boundary=rng.random() < 0.8,
                    errcalc='lib' if rng.random() < 0.3 else ['scripted', rng.randrange(1 << 20)],
                    steps=rng.choice([1, 2, 3, 4, 5]) if dim == 2 else rng.choice([1, 2, 3]), cap=400 if dim == 2 else 700)
        if rng.random() < 0.2:
            case['volume_weighting'] = True
        if rng.random() < 0.12:
            case['margin'] = rng.choice([0.5, 0.75, 1.0])
        if rng.random() < 0.08:
            case['lmax'] = 3
        g = rng.random()
        if g < 0.3:
            # other global grids (the basis grids hierarchise; GlobalHighOrderGrid / GlobalSimpsonGrid assert the quality of their
            # rules on boundary-free or strongly graded grids: boundary=True, default dim_adaptive)
            kind = rng.choice(['simpson', 'romberg', 'lagrange2', 'bspline3', 'highorder', 'simpson', 'lagrange2'])
            case.update(ggrid=kind, boundary=True, steps=min(case['steps'], 3))
            if kind == 'highorder':
                case.update(a=case['a'][:2], b=case['b'][:2], comps=[[[c, e[:2]] for c, e in t] for t in comps], steps=min(case['steps'], 2))
            if kind == 'romberg':             # the extrapolation weights assert dyadic step widths: unit cube
                case.update(a=[0] * len(case['a']), b=[1] * len(case['a']))
        elif g < 0.42:
            # UncertaintyQuantification operation (inherits the accumulator of Integration), as the repo's UQ tests construct it
            case.update(op=['uq', rng.choice(['Uniform', ['Triangle', 0.25]])], ggrid='trapw', grid_surplusses=True, volume_weighting=True, errcalc='lib')
            if case['op'][1] != 'Uniform':
                case.update(a=[0] * dim, b=[1] * dim)
        else:
            o = rng.random()
            if o < 0.18:
                # RefinementObjectSingleDimension.map_chebyshev is only meaningful on [0,1] (asserts start < mid < end elsewhere)
                case.update(chebyshev=True, a=[0] * len(case['a']), b=[1] * len(case['a']))
            elif o < 0.36:
                # the library's error estimator raises (abs(None)) without the dimension-adaptive scheme: scripted errors
                case.update(dim_adaptive=False, errcalc=['scripted', rng.randrange(1 << 20)])
            elif o < 0.46:
                case.update(force_balanced=True, errcalc='lib')
        if rng.random() < 0.08:
            case['recalc'] = rng.choice([1, 2, 3])
        if case.get('ggrid', 'trap') == 'trap' and case.get('op', 'int') == 'int' and not case.get('force_balanced') and rng.random() < 0.3:
            # many small refinement steps: only the objects of maximal benefit are split (margin 1), far below the point at which the
            # maximum level - and with it the combination scheme - changes again: consecutive stops share the scheme, not the refinement
            d2 = case['a'][:2], case['b'][:2]
            case.update(a=d2[0], b=d2[1], comps=[[[c, e[:2]] for c, e in t] for t in comps], margin=1.0, steps=rng.choice([5, 6, 7, 8]),
                        errcalc=['scripted', rng.randrange(1 << 20)], lmax=rng.choice([2, 3, 3]), cap=800, small_steps=True)
            case.pop('dim_adaptive', None)
    elif strat == 'es':
        case.update(version=rng.choice([0, 0, 0, 0, 0, 1, 1, 1, 2, 3]), lmax=rng.choice([2, 2, 3]), nrbe=rng.choice([1, 1, 2, 3]), auto=rng.random() < 0.25,
                    single_dim=rng.random() < 0.4,
                    errcalc='lib' if rng.random() < 0.3 else ['scripted', rng.randrange(1 << 20)],
                    steps=rng.choice([1, 2, 3, 4]) if dim == 2 else rng.choice([1, 2]), cap=500 if dim == 2 else 900)
        if rng.random() < 0.15:
            case.update(lmin=2, lmax=rng.choice([3, 3, 4]) if dim == 2 else 3)
        if rng.random() < 0.4:
            # other local grids; the high-order ones (is_high_order_grid) switch extend-split to parent estimation and, with
            # automatic_extend_split, to the extend_error_correction bookkeeping that works on copies of area.value
            kind = rng.choice(['cc', 'cc', 'cc', 'lagrange2', 'lagrange3', 'bspline3', 'simpson'])      # (Leja: minutes per run)
            case.update(grid=kind, auto=rng.random() < 0.7, errcalc='lib', steps=rng.choice([2, 3, 4]) if kind in ('cc', 'simpson') else rng.choice([2, 3]),
                        lmin=1)
            if kind[:3] in ('lag', 'bsp'):
                case.update(a=case['a'][:2], b=case['b'][:2], lmax=3, comps=[[[c, e[:2]] for c, e in t] for t in comps], cap=900)
            else:
                case.update(lmax=rng.choice([2, 3]) if dim == 2 else 2)
        if case['single_dim'] and case.get('grid') and len(case['a']) == 3:
            # parent estimation (high-order grids) asserts 2 or 2**dim children (get_sum_sibling_value): a split in 2 of 3 dimensions raises
            case.update(a=case['a'][:2], b=case['b'][:2], comps=[[[c, e[:2]] for c, e in t] for t in case['comps']])
        if case['single_dim'] and rng.random() < 0.6:
            d = len(case['a'])
            lo, hi = rng.choice([(0, 1), (0, 1), (-1, 1), (0, 2)])
            case.update(a=[lo] * d, b=[hi] * d, comps=_symmetric_comps(rng, d, nout))
        if rng.random() < 0.08:
            case['recalc'] = rng.choice([1, 2, 3])
            case['errcalc'] = ['scripted', rng.randrange(1 << 20)]
            case['steps'] = max(case['steps'], 3)
    if strat in ('es', 'dw') and case.get('op', 'int') == 'int' and rng.random() < 0.3:
        # a reference solution switches get_global_error_estimate to the relative error of the running result
        case['ref'] = [float(x) if x != 0 else 1.0 for x in A.poly_integral(case['comps'], case['a'], case['b'])]
    if strat == 'cell':
        case.update(a=[0] * dim, b=[1] * dim, lmin=rng.choice([1, 1, 2]) if dim == 2 else 1, errcalc='lib' if rng.random() < 0.5 else ['scripted', rng.randrange(1 << 20)],
                    steps=rng.choice([1, 2, 3, 4]) if dim == 2 else rng.choice([1, 2]), cap=600)
        case['lmax'] = case['lmin'] + 1
    elif strat == 'da':
        case['a'] = [0] * dim
        case['comps'] = [[[abs(c), e] for c, e in terms] for terms in comps]
        case['ref'] = [float(x) if x != 0 else 1.0 for x in A.poly_integral(case['comps'], case['a'], b)]
        case['max_points'] = rng.choice([30, 60, 100]) if dim == 2 else rng.choice([100, 200])
        if rng.random() < 0.4:
            case['pre'] = [rng.choice([1, 2]), rng.choice([10, 30])]       # an earlier perform_combi(minv, 2, max points) on the same object
    elif strat == 'std':
        case.update(lmin=rng.choice([1, 1, 2]), boundary=rng.random() < 0.8)
        case['lmax'] = case['lmin'] + (rng.choice([0, 1, 2, 3]) if dim == 2 else rng.choice([0, 1, 2]))
        if rng.random() < 0.3:
            case.update(grid=rng.choice(['cc', 'simpson', 'leja']), boundary=True)
        if rng.random() < 0.5:
            l0 = rng.choice([1, 2, 3])
            case['pre'] = [l0, l0 + rng.choice([0, 1, 2])]
    if strat in ('es', 'dw', 'cell') and rng.random() < 0.5:
        # PUBLIC CALLS ON THE LIVE OBJECT BETWEEN THE LEGS of the history: after a stop a random subset of the observers is called on
        # the instance under test itself, then the run is continued (refine / continue_adaptive_refinement / restart) and every
        # later stop is compared as before
        case['observers'] = [rng.sample(OBSERVERS, rng.choice([1, 1, 2, 3])) if rng.random() < 0.65 else [] for _ in range(case['steps'] + 1)]
        if not any(case['observers']):
            case['observers'][0] = ['final']
        # ... and the next leg may be a bare continue_adaptive_refinement (no refine() in between, as a user continues a stopped run):
        # its evaluate_operation consumes whatever marker / state the calls left behind
        case['idle'] = [bool(names) and rng.random() < 0.6 or rng.random() < 0.1 for names in case['observers']]
    if strat in ('es', 'dw', 'cell') and rng.random() < 0.1:
        case['reeval_legs'] = True      # started with reevaluate_at_end=True: every leg ends with evaluate_final_combi on the live object
    if strat in ('es', 'dw'):
        # axis (j): after a stop the CALLER mutates in place the arrays it passed at construction (domain bounds a, b, reference solution)
        # without passing them again; the instance must go on as if it had received values (the cell scheme, outside the quantifier,
        # keeps reading the caller's bounds and is left out)
        case['mutate'] = [rng.random() < 0.3 for _ in range(case['steps'] + 1)]
    if strat in ('es', 'dw', 'cell'):
        case['single_runs'] = rng.random() < 0.6      # the two uninterrupted comparison runs (reevaluate_at_end on/off, solutions_storage)
    if not in_scope(case):
        # coarsening versions 1..3 keep stale area results after a scheme change on the unchanged tree: there a re-evaluation from
        # scratch on the live object legitimately replaces them (and changes what later legs subtract) - only the pure observers
        case.pop('reeval_legs', None)
        if 'observers' in case:
            case['observers'] = [['result' if n in ('final', 'final2') else n for n in names] for names in case['observers']]
    return case


def in_scope(case):
    """the quantifier of the property names extend-split in its default coarsening version 0; versions 1, 2 and 3 keep stale per-area
    results after a scheme change on the unchanged tree (1: rarely, e.g. Clenshaw-Curtis + automatic_extend_split; 2, 3: often): for
    them the bookkeeping is compared (replay, flags, invariant, sum of the stored area results), not the recomputation"""
    return not (case['strat'] == 'es' and case.get('version', 0) != 0)

# ---------------------------------------------------------------------------------------------- implementation


def _coarsen_v0(levelvec, coarsening, lmin, seen):
    """extend-split coarsening version 0, written out independently of the library: the coarsened level vector relative to lmin
    of a component grid on an area with the given coarsening value, or None when the grid does not contribute there"""
    lv = [int(x) for x in levelvec]
    srt = sorted(lv, reverse=True)
    if srt[0] - srt[1] < coarsening:
        return None
    temp = list(lv)
    temp[temp.index(max(temp))] -= coarsening
    key = tuple(temp)
    if key in seen and seen[key] != tuple(lv):
        return None                      # collision: this coarsened grid is already accounted for by another component grid
    seen[key] = tuple(lv)
    return [t - lmin for t in temp]


def _cell_value(f, cell, lmin, a, b):
    """hierarchical contribution of one cell of the cell scheme, written out independently: inclusion-exclusion over the parents in
    the dimensions refined beyond lmin of the trapezoidal rule on the cell applied to the multilinear interpolant of the parent's corners"""
    import numpy as np
    dim = len(cell.start)
    lev = [int(x) for x in cell.levelvec]
    free = [d for d in range(dim) if lev[d] > lmin[d]]
    total = None
    corners = list(itertools.product(*[[cell.start[d], cell.end[d]] for d in range(dim)]))
    vol = 1.0
    for d in range(dim):
        vol *= float(cell.end[d]) - float(cell.start[d])
    for k in range(len(free) + 1):
        for sub in itertools.combinations(free, k):
            ps, pe = [float(x) for x in cell.start], [float(x) for x in cell.end]
            for d in sub:
                w = (float(b[d]) - float(a[d])) / 2 ** (lev[d] - 1)
                idx = int(round((float(cell.start[d]) - float(a[d])) / (w / 2)))
                if idx % 2 == 1:
                    ps[d] = pe[d] - w
                else:
                    pe[d] = ps[d] + w
            # multilinear interpolant of the parent's corner values at the cell's corners
            pc = list(itertools.product(*[[ps[d], pe[d]] for d in range(dim)]))
            pv = [np.asarray(f.eval(p), dtype=float) for p in pc]
            s = 0.0
            for c in corners:
                val = 0.0
                for p, v in zip(pc, pv):
                    wgt = 1.0
                    for d in range(dim):
                        t = (float(c[d]) - ps[d]) / (pe[d] - ps[d])
                        wgt *= t if p[d] == pe[d] else 1.0 - t
                    val = val + wgt * v
                s = s + val
            contrib = s * (0.5 ** dim * vol) * ((-1) ** k)
            total = contrib if total is None else total + contrib
    return total


def _fresh_total(sc, case):
    """independent recomputation on a (deep copy of the) instance: fresh grid + fresh integrand + fresh operation, the instance only
    tells the structure (areas, scheme, coarsened level vectors / 1D point sets).  Returns (total, scale, total by the independent
    coarsening rule or None)."""
    import numpy as np
    f = A.make_function(case['comps'])
    a = np.array([float(x) for x in case['a']]); b = np.array([float(x) for x in case['b']])
    n = len(case['comps'])
    total, scale, own = np.zeros(n), np.zeros(n), None
    strat = case['strat']
    if strat == 'dw':
        op2 = A.make_operation(case, f, a, b)
        g = A.make_global_grid(case, a, b, op2)
        for cg in sc.scheme:
            coords, levels, _ = sc.get_point_coord_for_each_dim(cg.levelvector)
            g.set_grid(coords, levels)
            x = np.asarray(g.integrate(f, cg.levelvector, a, b), dtype=float).ravel() * cg.coefficient
            total += x; scale += abs(x)
    elif strat == 'es':
        g = A.make_local_grid(case, a, b)
        v0 = case.get('version', 0) == 0
        own = np.zeros(n) if v0 else None
        for area in sc.refinement.get_objects():
            area.levelvec_dict = {}
            seen = {}
            for cg in sc.scheme:
                lv, do = sc.coarsen_grid(cg.levelvector, area)
                if do:
                    x = np.asarray(g.integrate(f, lv, area.start, area.end), dtype=float).ravel() * cg.coefficient
                    total += x; scale += abs(x)
                if v0:
                    lv2 = _coarsen_v0(cg.levelvector, int(area.coarseningValue), int(sc.lmin[0]), seen)
                    if lv2 is not None:
                        own += np.asarray(g.integrate(f, lv2, area.start, area.end), dtype=float).ravel() * cg.coefficient
    elif strat == 'cell':
        # the driver evaluates every cell once per component grid of self.scheme (the component grid is not used by the cell scheme)
        for cell in sc.refinement.get_objects():
            x = np.atleast_1d(_cell_value(f, cell, [int(v) for v in sc.lmin], a, b)).ravel() * len(sc.scheme)
            total += x; scale += abs(x)
    else:
        g = A.make_local_grid(case, a, b)
        for cg in sc.scheme:
            x = np.asarray(g.integrate(f, cg.levelvector, a, b), dtype=float).ravel() * cg.coefficient
            total += x; scale += abs(x)
    return A.vec(total), A.vec(scale), (A.vec(own) if own is not None else None)


def _rule(sc, case):
    """published quadrature rule: per component grid (coefficient, [(f(point) per output, weight)]) and the combined rule"""
    with A.quiet():
        pts, wts = sc.get_points_and_weights()
        comp = []
        for cg in sc.scheme:
            p, w = sc.get_points_and_weights_component_grid(cg.levelvector)
            comp.append((A.fl(cg.coefficient), [[float(c) for c in q] for q in p], [A.fl(x) for x in w]))
        stripes = None
        if case['strat'] == 'dw' and case.get('ggrid', 'trap') == 'trap' and not case.get('modified_basis') and len(pts) <= 700:
            # the 1D point sets of the CURRENT refinement per component grid: input of the model's published rule (AccumDW.v)
            stripes = []
            for cg in sc.scheme:
                coords, _, _ = sc.get_point_coord_for_each_dim(cg.levelvector)
                stripes.append([A.fl(cg.coefficient), [[A.fl(x) for x in cd] for cd in coords]])
    return dict(points=[[float(c) for c in q] for q in pts], weights=[A.fl(x) for x in wts], comp=comp, stripes=stripes)


def _has_areas(case):
    return case['strat'] in ('es', 'cell')


def _stop_record(sa, op, case, ret, with_rule):
    import numpy as np
    rec = dict(reported=A.vec(ret[3]), integral=A.vec(op.integral), evaluations=A.fl(ret[4]), points=int(sa.get_total_num_points()))
    rv = sa.refinement.value
    rec['container'] = A.vec(rv) if np.ndim(rv) > 0 and np.size(rv) == len(case['comps']) else None
    if _has_areas(case):
        rec['areas'] = sorted([op.aid(o), A.vec(o.value)] for o in sa.refinement.get_objects())
        rec['new'] = sorted(op.aid(o) for o in sa.get_new_areas())
    sc = copy.deepcopy(sa)
    rec['fresh'], rec['scale'], rec['fresh_own'] = _fresh_total(sc, case)
    sc = copy.deepcopy(sa)
    try:
        with A.quiet():
            fin = sc.evaluate_final_combi()
        rec['final_combi'] = A.vec(fin[0])
        with A.quiet():
            fin2 = sc.evaluate_final_combi()
        rec['final_combi_twice'] = A.vec(fin2[0])
        rv2 = sc.refinement.value
        rec['final_container'] = A.vec(rv2) if np.ndim(rv2) > 0 and np.size(rv2) == len(case['comps']) else None
    except Exception as e:  # observable
        rec['final_combi'] = 'exc:' + type(e).__name__
    # what the rule is a function of: the combination scheme and the refinement
    rec['scheme_sig'] = str((sorted(([int(x) for x in g.levelvector], float(g.coefficient)) for g in sa.scheme), [int(x) for x in sa.lmax]))
    if case['strat'] == 'dw':
        rec['ref_sig'] = str([[(float(o.start), float(o.end)) for o in c.get_objects()] for c in sa.refinement.refinementContainers])
    else:
        rec['ref_sig'] = str(sorted((tuple(float(x) for x in o.start), tuple(float(x) for x in o.end)) for o in sa.refinement.get_objects()))
    if case['strat'] == 'es' and case.get('version', 0) == 0 and case.get('grid', 'trap') == 'trap' and case.get('op', 'int') == 'int' \
            and len(sa.refinement.get_objects()) <= 16 and (int(sa.lmax[0]) - int(sa.lmin[0]) + 1) ** len(case['a']) <= 27:
        # input of the model's recomputation (AccumES.es_area_value over the C07 local combination): per area its coarsening value
        # and the operation applied to EVERY level vector of the box [0, lmax-lmin]^d with a fresh grid and integrand
        import itertools as _it
        import numpy as _np
        f2 = A.make_function(case['comps'])
        aa = _np.array([float(x) for x in case['a']]); bb = _np.array([float(x) for x in case['b']])
        g2 = A.make_local_grid(case, aa, bb)
        span = int(sa.lmax[0]) - int(sa.lmin[0])
        tabs = []
        for o in sa.refinement.get_objects():
            tbl = []
            for lvv in _it.product(range(span + 1), repeat=len(aa)):
                val = _np.asarray(g2.integrate(f2, list(lvv), o.start, o.end), dtype=float).ravel()
                tbl.append([list(lvv), A.vec(val if val.size == len(case['comps']) else _np.zeros(len(case['comps'])) + val.ravel()[0])])
            tabs.append([op.aid(o), int(o.coarseningValue), tbl])
        rec['es_model'] = dict(cp=[len(aa), 0, int(sa.lmin[0]), int(sa.lmax[0]), int(sa.lmin[0])], areas=tabs)
    if with_rule:
        # the published rule is asked on the LIVE object at EVERY stop (an answer remembered from an earlier stop would be stale)
        try:
            rec['rule'] = _rule(sa, case)
        except Exception as e:
            rec['rule'] = 'exc:%s:%s' % (type(e).__name__, str(e)[:100])
    return rec


def _with_rule(case):
    """the property constrains the public points / weights for the standard and dimension-wise strategies on nodal grids"""
    return case['strat'] == 'dw' and case.get('op', 'int') == 'int' and case.get('ggrid', 'trap') in NODAL_GLOBAL


def _logging_classes():
    from sparseSpACE.GridOperation import UncertaintyQuantification
    return A.make_logging_integration(), A.make_logging_integration(UncertaintyQuantification)


def _build(case, logging=True, op=None):
    if logging:
        LI, LUQ = _logging_classes()
        sa, op, f, eo = A.build(case, integration_cls=LI, uq_cls=LUQ, op=op, wrap=A.mark_main_evaluation)
    else:
        sa, op, f, eo = A.build(case, op=op)
    if case.get('recalc') and case['strat'] in ('es', 'dw'):
        sa.refinements_for_recalculate = case['recalc']          # public attribute (default 100): recalculation after that many refinements
    return sa, op, f, eo


def _perform_kw(case):
    return dict(recalculate_frequently=True) if case.get('recalc') else {}


def _observe(sa, op, case, names):
    """public observer calls on the LIVE instance; exceptions are observables (some observers are not implemented for some
    strategies), they must not change what later stops report"""
    import numpy as np
    out = []
    a = [float(x) for x in case['a']]; b = [float(x) for x in case['b']]
    for name in names:
        try:
            with A.quiet():
                if name == 'final':
                    val = A.vec(sa.evaluate_final_combi()[0])
                elif name == 'final2':
                    sa.evaluate_final_combi()
                    val = A.vec(sa.evaluate_final_combi()[0])
                elif name == 'result':
                    val = A.vec(op.get_result())
                    _ = sa.calculated_solution
                elif name == 'npoints':
                    val = [int(sa.get_total_num_points()), int(sa.get_total_num_points(distinct_function_evals=False))]
                elif name == 'pw':
                    pts, wts = sa.get_points_and_weights()
                    val = len(pts)
                elif name == 'call':
                    pts = [tuple(a[d] + (b[d] - a[d]) * t for d in range(len(a))) for t in (0.5, 0.25, 0.8125)]
                    val = len(sa(pts))
                elif name == 'check':
                    sa.check_combi_scheme()
                    val = 'ok'
                elif name == 'points':
                    val = sum(len(sa.get_points_component_grid(cg.levelvector)) for cg in sa.scheme)
                else:
                    raise ValueError(name)
            out.append([name, val])
        except Exception as e:
            out.append([name, 'exc:' + type(e).__name__])
    return out


def _live_state(sa, op, case):
    import numpy as np
    rv = sa.refinement.value
    st = dict(integral=A.vec(op.integral), container=A.vec(rv) if np.ndim(rv) > 0 and np.size(rv) == len(case['comps']) else None)
    if _has_areas(case):
        st['areas'] = sorted([op.aid(o), A.vec(o.value)] for o in sa.refinement.get_objects())
        st['new'] = sorted(op.aid(o) for o in sa.get_new_areas())
    return st


def impl_run(case):
    import numpy as np
    strat = case['strat']
    if strat == 'std':
        sc, op, f, _ = _build(case)
        pre = None
        with A.quiet():
            if case.get('pre'):       # an earlier request with other levels on the same object; its rule is asked as well
                r0 = sc.perform_operation(case['pre'][0], case['pre'][1])
                fresh0, scale0, _ = _fresh_total(sc, case)
                pre = dict(reported=A.vec(r0[2]), fresh=fresh0, scale=scale0, rule=_rule(sc, case))
            r = sc.perform_operation(case['lmin'], case['lmax'])
        fresh, scale, _ = _fresh_total(sc, case)
        if case.get('oracle_only'):        # axis (k): sizes beyond the gates of the source under test - reported value against the recomputation
            return dict(reported=A.vec(r[2]), fresh=fresh, scale=scale, pre=None, points=int(sum(np.prod(sc.grid.levelToNumPoints(g.levelvector)) for g in sc.scheme)),
                        scheme=[[[int(x) for x in g.levelvector], A.fl(g.coefficient)] for g in sc.scheme])
        return dict(reported=A.vec(r[2]), fresh=fresh, scale=scale, rule=_rule(sc, case), pre=pre,
                    scheme=[[[int(x) for x in g.levelvector], A.fl(g.coefficient)] for g in sc.scheme])
    if strat == 'da':
        da, op, f, _ = _build(case)
        A.guard_dimadaptive(da)
        with A.quiet():
            if case.get('pre'):
                da.perform_combi(case['pre'][0], 2, -1.0, max_number_of_points=case['pre'][1])
                A.guard_dimadaptive(da)
            r = da.perform_combi(case['lmin'], case['lmax'], -1.0, max_number_of_points=case['max_points'])
        fresh, scale, _ = _fresh_total(da, case)
        return dict(reported=A.vec(r[2]), fresh=fresh, scale=scale,
                    scheme=[[[int(x) for x in g.levelvector], A.fl(g.coefficient)] for g in da.scheme])
    sa, op, f, eo = _build(case)
    offset = 0
    if case.get('warmup'):
        # short history on ONE operation/grid/function object (as the repo's tests reuse them): a first instance is run for one
        # refinement step, then the instance under test is created on the same operation
        A.perform(sa, eo, case, -1.0, 1, 1, **_perform_kw(case))
        with A.quiet():
            sa.refine()
        A.cont(sa, -1.0, 1, 1)
        sa, op, f, eo = _build(case, op=op)
        offset = len(op.events)
    caller = dict(A.CALLER_OBJECTS) if case.get('mutate') else None      # handles on the arrays handed to grid / operation / strategy
    stops, rets = [], []
    kw0 = _perform_kw(case)
    if case.get('reeval_legs'):
        kw0['reevaluate_at_end'] = True
    ret = A.perform(sa, eo, case, -1.0, 1, 1, **kw0)
    for k in range(case['steps'] + 1):
        op.events.append([6])
        rets.append((ret[3], np.array(ret[3], copy=True)))
        rec = _stop_record(sa, op, case, ret, with_rule=_with_rule(case))
        rec['aliased'] = [i for i, (live, snap) in enumerate(rets[:-1]) if not np.array_equal(live, snap)]
        stops.append(rec)
        names = (case.get('observers') or [])[k] if k < len(case.get('observers') or []) else []
        rec['loop_k'] = k
        if names:
            rec['observed'] = _observe(sa, op, case, names)
            rec['after_observers'] = _live_state(sa, op, case)
        if k < len(case.get('mutate') or []) and case['mutate'][k] and caller is not None:
            caller['a'][...] = caller['a'] - 0.5
            caller['b'][...] = caller['b'] + 0.25
            if caller['ref'] is not None:
                caller['ref'][...] = 7.0
            rec['caller_mutated'] = True
        if k < len(case.get('idle') or []) and case['idle'][k]:
            # a leg without refinement: continue_adaptive_refinement evaluates the (empty set of) new objects and stops again
            ret = A.cont(sa, -1.0, 1, 1)
            op.events.append([6])
            rets.append((ret[3], np.array(ret[3], copy=True)))
            rec = _stop_record(sa, op, case, ret, with_rule=_with_rule(case))
            rec['aliased'] = [i for i, (live, snap) in enumerate(rets[:-1]) if not np.array_equal(live, snap)]
            rec['loop_k'] = k
            rec['idle'] = True
            stops.append(rec)
        if k == case['steps'] or sa.get_total_num_points() > case['cap']:
            break
        with A.quiet():
            sa.refine()
        if _has_areas(case):
            rec['added'] = sorted(op.aid(o) for o in sa.get_new_areas())
            rec['all_new'] = len(sa.get_new_areas()) == len(sa.refinement.get_objects())
            if rec['all_new'] and case.get('recalc'):
                rec['reinit'] = True             # the recalculation fired: reinit_new_objects
                op.events.append([11])
        else:
            rec['added'] = []
        ret = A.cont(sa, -1.0, 1, 1)
    limit = int(sa.get_total_num_points()) - 1
    if case.get('restart'):
        # continue from the refinement reached so far through the refinement_container argument: reinit_new_objects marks every
        # object new, everything is evaluated again
        stops[-1]['reinit'] = True
        op.events.append([11])                   # reinit_new_objects (the container is not an object the operation sees)
        ret = A.perform(sa, eo, case, -1.0, 1, 1, refinement_container=sa.refinement, **_perform_kw(case))
        op.events.append([6])
        rec = _stop_record(sa, op, case, ret, with_rule=_with_rule(case))
        rec['aliased'] = []
        rec['restart'] = True
        stops.append(rec)
    # (d) uninterrupted runs with the same final limits, with and without re-evaluation at the end; the run without also records
    # the solutions of every evaluation (solutions_storage)
    out = dict(stops=stops, events=op.events[offset:], points=int(sa.get_total_num_points()))
    for flag in ((False, True) if case.get('single_runs', True) else ()):
        sb, opb, fb, eob = _build(case, logging=False)
        kw = _perform_kw(case)
        storage = None
        if not flag:
            storage = {}
            kw['solutions_storage'] = storage
        rb = A.perform(sb, eob, case, -1.0, 1, limit, reevaluate_at_end=flag, **kw)
        out['single_%s' % flag] = A.vec(rb[3])
        if storage is not None:
            out['storage'] = sorted([int(k), A.vec(v)] for k, v in storage.items())
            vals = list(storage.values())
            out['storage_aliased'] = any(x is y for i, x in enumerate(vals) for y in vals[:i]) or any(v is opb.integral for v in vals)
    return out


def impl_probe(case):
    """an option that is excluded because the unchanged code raises: does it still raise?"""
    sa, op, f, eo = _build(case, logging=False)
    A.perform(sa, eo, case, -1.0, 1, 1)
    return 'runs'

# ---------------------------------------------------------------------------------------------- model encoding / comparison


def q(h):
    return sx.rat(A.unfl(h))


def xq(x, j):
    """component j of a logged partial result (a grid without points integrates to the scalar 0.0)"""
    return q(x[j] if len(x) > j else x[0])


def close(a_hex, m, scale):
    v = A.unfl(a_hex)
    if v != v or abs(v) == float('inf'):
        return False
    return abs(Fraction(v) - m) <= TOL * (scale + 1)


def events_for_component(events, j):
    """the event log as the model replays it: a main evaluation is what the model prescribes (added to area, container and result),
    a side evaluation touches the area value only, whatever flags the implementation passed; an evaluate_final_combi on the live
    object starts from a zero result and a zero container value (AFinalBegin) whatever the implementation reset"""
    out = []
    infinal = False
    for e in events:
        if e[0] == 12:
            infinal = True
            out.append([12])
        elif e[0] == 13:
            infinal = False
        elif e[0] == 10 and infinal:
            pass
        elif e[0] == 2:
            main = e[5] if len(e) > 5 else True
            out.append([2, e[1], xq(e[2], j), 1, 1] if main else [7, e[1], xq(e[2], j)])
        elif e[0] == 9:
            out.append([2, e[1], xq(e[2], j), 1, 1])
        elif e[0] == 5:
            out.append([5, xq(e[1], j)])
        elif e[0] == 8:
            out.append([8, e[1]])
        else:
            out.append(e)
    return out


def flag_mismatches(events):
    """evaluate_area calls whose flags differ from the model's prescription: main = (result, container), side = (neither)"""
    bad = []
    for n, e in enumerate(events):
        if e[0] == 2:
            main = e[5] if len(e) > 5 else True
            if (bool(e[3]), bool(e[4])) != ((True, True) if main else (False, False)):
                bad.append(dict(event=n, area=e[1], main=main, apply_to_combi_result=bool(e[3]), container_passed=bool(e[4])))
    return bad


def steps_for_component(r, j):
    """derive the driver steps (Model/Accum.v dstep) from the raw log: side / estimate evaluations, evaluate(parts of the new
    areas), refine(removed, added).  Side evaluations made while refine() runs are placed after the refine step (they touch new or
    temporary areas only).  Derivation stops at a recalculation (reinit_new_objects)."""
    steps, initial = [], None
    parts, order = {}, []
    removed = None
    pending = []
    stop = 0
    dw = False
    nstops = 0
    infinal, fparts, forder, pending_final = False, {}, [], []
    for e in r['events']:
        if e[0] == 12:
            infinal, fparts, forder = True, {}, []
        elif e[0] == 13:
            infinal = False
            if not dw:
                step = [5, [[i, fparts[i]] for i in forder]]
                if order or initial is None:
                    pending_final.append(step)      # re-evaluation at the end of this leg (reevaluate_at_end): behind its evaluation
                else:
                    steps.append(step)              # observer call after the stop
        elif infinal:
            if e[0] == 1 and e[1] not in fparts:
                fparts[e[1]] = []; forder.append(e[1])
            elif (e[0] == 2 and (e[5] if len(e) > 5 else True)) or e[0] == 9:
                fparts.setdefault(e[1], []).append(xq(e[2], j))
                if e[1] not in forder:
                    forder.append(e[1])
        elif e[0] == 1:
            if e[1] not in parts:
                parts[e[1]] = []; order.append(e[1])
        elif e[0] == 2 and (e[5] if len(e) > 5 else True):
            parts.setdefault(e[1], []).append(xq(e[2], j))
            if e[1] not in order:
                order.append(e[1])
        elif e[0] == 9:
            parts.setdefault(e[1], []).append(xq(e[2], j))
            if e[1] not in order:
                order.append(e[1])
        elif e[0] == 2:
            pending.append([3, e[1], xq(e[2], j)])
        elif e[0] == 8:
            pending.append([4, e[1]])
        elif e[0] == 4:
            dw = True; parts = {'dw': []}
        elif e[0] == 5:
            parts['dw'].append(xq(e[1], j))
        elif e[0] == 3:
            removed = e[1]
        elif e[0] == 6:
            if dw:
                steps.append([2, parts['dw']])
            else:
                if initial is None:
                    initial = list(order)
                else:
                    prev = r['stops'][stop - 1]
                    if prev.get('reinit'):
                        break
                    steps.append([1, removed or [], prev.get('added', [])])
                # estimate evaluations made by calc_error during this evaluation belong behind it; model-wise they are no-ops
                steps += [p for p in pending if p[0] == 3]
                steps.append([0, [[i, parts[i]] for i in order]])
                steps += [p for p in pending if p[0] == 4]
                steps += pending_final
            parts, order, removed, pending, pending_final = {}, [], None, [], []
            stop += 1
            nstops += 1
    return initial or [], steps, nstops


def make_sig(case):
    sig = {'strat': case['strat']}
    for k in ('version', 'single_dim', 'auto', 'grid', 'ggrid'):
        if k in case:
            sig[k] = case[k]
    sig['recalc'] = bool(case.get('recalc'))
    sig['restart'] = bool(case.get('restart'))
    sig['op'] = case.get('op', 'int') if isinstance(case.get('op', 'int'), str) else 'uq'
    return sig


def run_adaptive_checks(chk, case, r, mjobs):
    nout = len(case['comps'])
    base = len(mjobs)
    nsteps_stops = 0
    for j in range(nout):
        mjobs.append((0, events_for_component(r['events'], j)))
        initial, steps, nsteps_stops = steps_for_component(r, j)
        mjobs.append((1, [1, 0, initial, steps]))     # the (repaired) driver with its side evaluations
        mjobs.append((1, [1, 1, initial, steps]))     # ... and without them (Accum.strip_sides)

    def evaluate(mres):
        sig = make_sig(case)
        strat = case['strat']
        scope = in_scope(case)
        nst = len(r['stops'])
        areas_strat = _has_areas(case)
        # ---- flags of every evaluate_area call against the model's prescription
        oracle_bad_any = False
        recalc_fired = False
        stale_any = False
        caller_mutated = False
        for k, st in enumerate(r['stops']):
            fk = dict(case, steps=st.get('loop_k', k))
            scale = [Fraction(A.unfl(x)) for x in st['scale']]
            rep = st['reported']
            # ---- property predicate on the implementation alone
            indep_ok = all(close(rep[j], q(st['fresh'][j]), scale[j]) for j in range(nout))
            own_ok = st.get('fresh_own') is None or all(close(rep[j], q(st['fresh_own'][j]), scale[j]) for j in range(nout))
            sum_ok = True
            if areas_strat:
                sums = [sum((Fraction(A.unfl(v[j])) for _, v in st['areas']), Fraction(0)) for j in range(nout)]
                sum_ok = all(close(rep[j], sums[j], scale[j]) for j in range(nout))
            if k > 0 and r['stops'][k - 1].get('reinit'):
                recalc_fired = True
            if k > 0 and r['stops'][k - 1].get('caller_mutated'):
                caller_mutated = True
            if recalc_fired and strat == 'es' and not ((indep_ok or not scope) and sum_ok):
                # reinit_new_objects (recalculate_frequently / refinement_container) resets refinement.value and marks every area new,
                # operation.integral is kept: every area is counted twice (C05_recalculate_unchanged_refuted); later stops of this
                # case are consequences
                if st.get('restart'):
                    chk.violation('oracle:combination', 'restart-double-counts', sig, dict(case, steps=k - 1),
                                  dict(stop=k, reported=[A.unfl(x) for x in rep], independent=[A.unfl(x) for x in st['fresh']],
                                       how='performSpatiallyAdaptiv(.., refinement_container=instance.refinement) after stop %d' % (k - 1)))
                else:
                    chk.violation('oracle:combination', 'recalculation-double-counts', sig, fk,
                                  dict(stop=k, reported=[A.unfl(x) for x in rep], independent=[A.unfl(x) for x in st['fresh']],
                                       refinements_for_recalculate=case['recalc']))
                chk.traces += 1
                return
            bad_here = False
            if caller_mutated and scope and not indep_ok:
                # axis (j): the caller changed in place the bounds / reference arrays it had passed at construction; the instance (its grid)
                # read them again instead of having kept values
                chk.violation('oracle:combination', 'caller-mutated-bounds-read-again', sig, fk,
                              dict(stop=k, reported=[A.unfl(x) for x in rep], independent=[A.unfl(x) for x in st['fresh']],
                                   how='after an earlier stop the caller did a[...] = a - 0.5; b[...] = b + 0.25 on the arrays given to grid / operation / strategy'))
                chk.traces += 1
                return
            if scope and not indep_ok:
                bad_here = True
                chk.violation('oracle:combination', 'combination-differs', sig, fk,
                              dict(stop=k, reported=[A.unfl(x) for x in rep], independent=[A.unfl(x) for x in st['fresh']]))
            elif scope and not own_ok:
                bad_here = True
                chk.violation('oracle:combination', 'combination-differs', dict(sig, rule='independent-coarsening'), fk,
                              dict(stop=k, reported=[A.unfl(x) for x in rep], independent=[A.unfl(x) for x in st['fresh_own']]))
            elif not scope and not indep_ok:
                stale_any = True
                chk.count('es version 1/2/3: stored area results stale after a scheme change (outside the quantifier; bookkeeping compared only)')
            if not sum_ok:
                bad_here = True
                chk.violation('oracle:combination', 'sum-of-area-results-differs', sig, fk,
                              dict(stop=k, reported=[A.unfl(x) for x in rep], sum_of_area_values=[float(x) for x in sums]))
            if st['container'] is not None and (st['container'] != st['integral'] if not recalc_fired else
                                                not all(close(st['container'][j], q(st['integral'][j]), scale[j]) for j in range(nout))):
                bad_here = True
                chk.violation('oracle:combination', 'container-differs', sig, fk,
                              dict(stop=k, refinement_value=[A.unfl(x) for x in st['container']], integral=[A.unfl(x) for x in st['integral']]))
            if isinstance(st.get('final_combi'), str):
                chk.violation('oracle:reevaluation', 'reevaluation-raises', dict(sig, via='evaluate_final_combi'), fk, dict(stop=k, exc=st['final_combi']))
            elif scope or indep_ok:
                if not all(close(st['final_combi'][j], q(rep[j]), scale[j]) for j in range(nout)):
                    bad_here = True
                    chk.violation('oracle:reevaluation', 'reevaluation-differs', dict(sig, via='evaluate_final_combi'), fk,
                                  dict(stop=k, reported=[A.unfl(x) for x in rep], evaluate_final_combi=[A.unfl(x) for x in st['final_combi']]))
                elif not all(close(st['final_combi_twice'][j], q(rep[j]), scale[j]) for j in range(nout)):
                    bad_here = True
                    chk.violation('oracle:reevaluation', 'reevaluation-not-idempotent', dict(sig, via='evaluate_final_combi'), fk,
                                  dict(stop=k, reported=[A.unfl(x) for x in rep], second=[A.unfl(x) for x in st['final_combi_twice']]))
                elif st.get('final_container') is not None and not all(close(st['final_container'][j], q(st['final_combi_twice'][j]), scale[j]) for j in range(nout)):
                    bad_here = True
                    chk.violation('oracle:reevaluation', 'reevaluation-container-differs', dict(sig, via='evaluate_final_combi'), fk,
                                  dict(stop=k, result=[A.unfl(x) for x in st['final_combi_twice']], refinement_value=[A.unfl(x) for x in st['final_container']]))
            if st.get('observed'):
                check_observers(chk, case, fk, st, sig, scale, k, scope or indep_ok)
            if st['aliased']:
                chk.violation('oracle:combination', 'result-aliased', sig, dict(case, steps=k),
                              dict(stop=k, why='the array returned at stop(s) %s changed when the run was continued' % st['aliased']))
            if 'rule' in st:
                check_rule(chk, case, fk, st['rule'], rep, scale, sig, mjobs_late, k)
            if st.get('es_model') and not recalc_fired:
                mjobs_late.append(dict(es=st['es_model'], fk=fk, k=k, sig=sig, rep=rep, scale=scale, areas=st['areas']))
            oracle_bad_any = oracle_bad_any or bad_here
            # ---- model: raw replay and driver-step replay
            for j in range(nout):
                snaps = mres[base + 3 * j]
                trace = mres[base + 3 * j + 1]
                trace_strip = mres[base + 3 * j + 2]
                if sx.is_err(snaps) or k >= len(snaps):
                    chk.violation('corr:C05/replay', 'model-rejects', sig, fk, dict(model=str(snaps)[:300]), failing_input=False)
                    return
                total, cont, areas, _new, inv = snaps[k]
                if not close(st['integral'][j], sx.q(total), scale[j]) or not close(rep[j], sx.q(total), scale[j]):
                    chk.violation('corr:C05/replay', 'running-total-differs', sig, fk,
                                  dict(stop=k, component=j, model=float(sx.q(total)), impl=A.unfl(st['integral'][j]), reported=A.unfl(rep[j]),
                                       note='model = main evaluations added, side evaluations not (Accum.ASide)'),
                                  failing_input=bad_here)
                if st['container'] is not None and not close(st['container'][j], sx.q(cont), scale[j]):
                    chk.violation('corr:C05/replay', 'container-value-differs', sig, fk,
                                  dict(stop=k, component=j, model=float(sx.q(cont)), impl=A.unfl(st['container'][j])), failing_input=bad_here)
                if areas_strat:
                    ma = {i: sx.q(v) for i, v in areas}
                    for i, v in st['areas']:
                        if i not in ma or not close(v[j], ma[i], scale[j]):
                            chk.violation('corr:C05/replay', 'area-value-differs', sig, fk,
                                          dict(stop=k, component=j, area=i, model=str(ma.get(i)), impl=A.unfl(v[j])), failing_input=bad_here)
                            break
                    if sorted(ma) != [i for i, _ in st['areas']]:
                        chk.violation('corr:C05/replay', 'area-set-differs', sig, fk, dict(stop=k, model=sorted(ma), impl=[i for i, _ in st['areas']]),
                                      failing_input=False)
                    if inv != 1 and recalc_fired and strat == 'es':
                        # the missing reset after reinit_new_objects again, with an earlier result so small (integrand integrating to ~0)
                        # that the float tolerance of the oracle hides the doubling: the exact invariant check of the model sees it
                        chk.violation('checker:C05/inv_checkb', 'restart-double-counts' if st.get('restart') else 'recalculation-double-counts', sig,
                                      dict(case, steps=k - 1) if st.get('restart') else fk,
                                      dict(stop=k, component=j, note='exact invariant check on the replayed log; the doubled earlier result is below the float tolerance',
                                           reported=[A.unfl(x) for x in rep], independent=[A.unfl(x) for x in st['fresh']]), failing_input=True)
                        chk.traces += 1
                        return
                    if inv != 1:
                        # verified checker (C05_inv_checkb_sound) on the replayed state: running total = sum of the stored area results
                        chk.violation('checker:C05/inv_checkb', 'accumulator-invariant-fails', sig, fk, dict(stop=k, component=j), failing_input=bad_here)
                    else:
                        chk.count('inv_checkb-true-on-snapshot')
                # driver steps: state after the evaluate step of stop k, with and without side evaluations
                if k >= nsteps_stops:
                    continue
                if sx.is_err(trace) or k >= len(trace) or sx.is_err(trace_strip) or k >= len(trace_strip):
                    chk.violation('corr:C05/steps', 'model-rejects', sig, fk, dict(model=str(trace)[:300]), failing_input=False)
                    return
                t2, c2, a2, n2, _i2 = trace[k]
                t3, c3, a3, n3, _i3 = trace_strip[k]
                if sx.q(t2) != sx.q(total) or (areas_strat and sorted((i, sx.q(v)) for i, v in a2) != sorted((i, sx.q(v)) for i, v in areas)):
                    chk.violation('corr:C05/steps', 'driver-steps-differ-from-event-log', sig, fk,
                                  dict(stop=k, component=j, steps_total=float(sx.q(t2)), log_total=float(sx.q(total))), failing_input=False)
                if (sx.q(t2), sx.q(c2), sorted((i, sx.q(v)) for i, v in a2)) != (sx.q(t3), sx.q(c3), sorted((i, sx.q(v)) for i, v in a3)):
                    chk.violation('corr:C05/steps', 'side-evaluations-visible', sig, fk,
                                  dict(stop=k, component=j, with_sides=float(sx.q(t2)), without=float(sx.q(t3))), failing_input=False)
                if areas_strat and sorted(n2) != st['new']:
                    chk.violation('corr:C05/steps', 'new-marker-differs', sig, fk, dict(stop=k, model=sorted(n2), impl=st['new']), failing_input=False)
        # ---- flags of every evaluate_area call against the model's prescription
        bad = flag_mismatches(r['events'])
        if bad:
            chk.violation('corr:C05/flags', 'evaluation-flags-differ', dict(sig, main=bad[0]['main']), dict(case, steps=nst - 1),
                          dict(first=bad[0], count=len(bad),
                               why='main evaluations must be applied to result and container, side evaluations (outside compute_solutions) to neither'),
                          failing_input=oracle_bad_any)
        # (d) re-evaluation at the end of an uninterrupted run; solutions_storage
        last = [st for st in r['stops'] if not st.get('restart')][-1]
        scale = [Fraction(A.unfl(x)) for x in last['scale']]
        have_single = 'single_False' in r
        same_as_stepwise = have_single and all(close(r['single_False'][j], q(last['reported'][j]), scale[j]) for j in range(nout))
        if have_single and not same_as_stepwise:
            chk.count('single-run-differs-from-stepwise (C14 territory)')
        if have_single and not stale_any and not recalc_fired and not all(close(r['single_True'][j], q(r['single_False'][j]), scale[j]) for j in range(nout)):
            chk.violation('oracle:reevaluation', 'reevaluation-differs', dict(sig, via='reevaluate_at_end'), dict(case, steps=nst - 1, limit=r['points'] - 1),
                          dict(without=[A.unfl(x) for x in r['single_False']], with_reevaluate_at_end=[A.unfl(x) for x in r['single_True']]))
        if r.get('storage_aliased'):
            chk.violation('oracle:combination', 'result-aliased', dict(sig, via='solutions_storage'), dict(case, steps=nst - 1, limit=r['points'] - 1),
                          dict(why='entries of solutions_storage share one array (or the live accumulator)'))
        if same_as_stepwise and 'storage' in r and not any(st.get('caller_mutated') for st in r['stops']):
            store = {k: v for k, v in r['storage']}
            npts = [st['points'] for st in r['stops']]
            for k, st in enumerate(r['stops']):
                if st.get('restart'):
                    continue
                if npts.count(st['points']) > 1:          # the dictionary is keyed by the point count: a later evaluation with the same count overwrites
                    chk.count('solutions_storage: key collision (same point count at two evaluations)')
                    continue
                v = store.get(st['points'])
                if v is None:
                    chk.count('solutions_storage: stop without entry (evaluation counts differ)')
                    continue
                sc = [Fraction(A.unfl(x)) for x in st['scale']]
                if not all(close(v[j], q(st['reported'][j]), sc[j]) for j in range(nout)):
                    chk.violation('oracle:combination', 'solutions-storage-differs', sig, dict(case, steps=nst - 1, limit=r['points'] - 1),
                                  dict(stop=k, points=st['points'], stored=[A.unfl(x) for x in v], reported_at_that_stop=[A.unfl(x) for x in st['reported']]))
                else:
                    chk.count('solutions_storage entry = value reported at that stop')
        chk.traces += 1
    mjobs_late = []
    evaluate.late = mjobs_late
    return evaluate


def check_observers(chk, case, fk, st, sig, scale, k, compare_values):
    """public calls made on the live object after stop k: the from-scratch value equals the reported one, and the calls leave result,
    container value, area results and the new-object marker as they were (what a later leg consumes)"""
    nout = len(case['comps'])
    rep = st['reported']
    names = [n for n, _ in st['observed']]
    osig = dict(sig, observers='+'.join(sorted(set(names))))
    for name, val in st['observed']:
        chk.count('observer %s: %s' % (name, val if isinstance(val, str) and val.startswith('exc:') else 'ok'))
        if name in ('final', 'final2', 'result') and isinstance(val, list) and compare_values:
            if not all(close(val[j], q(rep[j]), scale[j]) for j in range(nout)):
                chk.violation('oracle:reevaluation', 'reevaluation-differs', dict(osig, via='live ' + name), fk,
                              dict(stop=k, reported=[A.unfl(x) for x in rep], returned=[A.unfl(x) for x in val], observer=name))
    after = st['after_observers']
    bad = []
    if not all(close(after['integral'][j], q(st['integral'][j]), scale[j]) for j in range(nout)):
        bad.append('operation result %s -> %s' % ([A.unfl(x) for x in st['integral']], [A.unfl(x) for x in after['integral']]))
    if (after['container'] is None) != (st['container'] is None) or (after['container'] is not None and
            not all(close(after['container'][j], q(st['container'][j]), scale[j]) for j in range(nout))):
        bad.append('refinement.value %s -> %s' % (st['container'] and [A.unfl(x) for x in st['container']], after['container'] and [A.unfl(x) for x in after['container']]))
    if 'areas' in after:
        if [i for i, _ in after['areas']] != [i for i, _ in st['areas']]:
            bad.append('set of areas changed')
        elif compare_values and any(not close(v2[j], q(v1[j]), scale[j]) for (_, v1), (_, v2) in zip(st['areas'], after['areas']) for j in range(nout)):
            bad.append('area results changed')
        if after['new'] != st['new']:
            bad.append('objects marked new %s -> %s' % (st['new'], after['new']))
    if bad:
        chk.violation('oracle:reevaluation', 'observer-changes-state', osig, fk, dict(stop=k, observers=names, changes=bad))


def check_rule(chk, case, fk, rule, rep, scale, sig, late, k):
    """(e) published points and weights reproduce the reported integral; the combined rule is the model's combination of the
    component rules.  Evaluated exactly in Fractions; the model job is queued in `late` and checked by finish_rules."""
    nout = len(case['comps'])
    if isinstance(rule, str):
        chk.violation('oracle:rule', 'rule-raises', sig, fk, dict(stop=k, exc=rule))
        return
    pts, wts = rule['points'], [q(w) for w in rule['weights']]
    if len(pts) != len(wts):
        chk.violation('oracle:rule', 'rule-differs', sig, fk, dict(stop=k, why='%d points, %d weights' % (len(pts), len(wts))))
        return
    vals = [A.exact_eval(case['comps'], p) for p in pts]
    applied = [sum(w * v[j] for w, v in zip(wts, vals)) for j in range(nout)]
    ok = all(close(rep[j], applied[j], scale[j]) for j in range(nout))
    if not ok:
        chk.violation('oracle:rule', 'rule-differs', sig, fk,
                      dict(stop=k, reported=[A.unfl(x) for x in rep], rule_applied=[float(x) for x in applied], npoints=len(pts)))
    late.append(dict(fk=fk, k=k, sig=sig, rule=rule, applied=applied, ok=ok, rep=rep, scale=scale))


def run_simple_checks(chk, case, r, mjobs):
    nout = len(case['comps'])
    late = []

    def evaluate(mres):
        sig = make_sig(case)
        scale = [Fraction(A.unfl(x)) for x in r['scale']]
        if not all(close(r['reported'][j], q(r['fresh'][j]), scale[j]) for j in range(nout)):
            chk.violation('oracle:combination', 'combination-differs', sig, case,
                          dict(reported=[A.unfl(x) for x in r['reported']], independent=[A.unfl(x) for x in r['fresh']]))
        if 'rule' in r:
            check_rule(chk, case, case, r['rule'], r['reported'], scale, sig, late, 0)
        if r.get('pre'):
            p0 = r['pre']
            sc0 = [Fraction(A.unfl(x)) for x in p0['scale']]
            pc = dict(case, lmin=case['pre'][0], lmax=case['pre'][1], pre=None)
            if not all(close(p0['reported'][j], q(p0['fresh'][j]), sc0[j]) for j in range(nout)):
                chk.violation('oracle:combination', 'combination-differs', sig, pc,
                              dict(reported=[A.unfl(x) for x in p0['reported']], independent=[A.unfl(x) for x in p0['fresh']]))
            check_rule(chk, pc, pc, p0['rule'], p0['reported'], sc0, sig, late, 0)
        chk.traces += 1
    evaluate.late = late
    return evaluate


def finish_model_functions(chk, todo):
    """the functions of the model states proved equal to the reported value, evaluated through the entry point on what the
    implementation reports: (sub 3) AccumDW.published_of_stripes on the stripes of every component grid = get_points_and_weights as a
    multiset of weighted points; (sub 4) AccumES.es_area_value over the C07 local combination of every area = area.value, their
    sum = the reported value"""
    jobs, meta = [], []
    ndw = 0
    for ev in todo:
        for item in getattr(ev, 'late', []):
            if 'es' in item:
                es = item['es']
                for j in range(len(item['rep'])):
                    jobs.append((4, [es['cp'], [[c, [[lv, q(v[j])] for lv, v in tbl]] for _, c, tbl in es['areas']]]))
                    meta.append(('es', item, j))
            elif item.get('rule') and item['rule'].get('stripes') and ndw < 150:
                ndw += 1
                fk = item['fk']
                comps = [[q(c), [[sx.rat(Fraction(fk['a'][d])), sx.rat(Fraction(fk['b'][d])), [q(x) for x in xs]] for d, xs in enumerate(dims)]]
                         for c, dims in item['rule']['stripes']]
                jobs.append((3, [1 if fk.get('boundary', True) else 0, comps]))
                meta.append(('dw', item, 0))
    if not jobs:
        return
    res = run_model(5, jobs)
    for (kind, item, j), m in zip(meta, res):
        fk, sig, k = item['fk'], item['sig'], item['k']
        if sx.is_err(m):
            chk.violation('corr:C05/model-function', 'model-rejects', dict(sig, fn=kind), fk, dict(stop=k, model=str(m)[:200]), failing_input=False)
            continue
        if kind == 'dw':
            mr = sorted((tuple(sx.q(c) for c in p), sx.q(w)) for p, w in m)
            ir = sorted((tuple(Fraction(c) for c in p), q2f(w)) for p, w in zip(item['rule']['points'], item['rule']['weights']))
            # points are the same floats on both sides; weights are products of rounded 1D weights in the implementation (exact on dyadic
            # grids, rounded for chebyshev / non-dyadic boxes): 1e-12 relative
            same = len(mr) == len(ir) and all(pm == pi and abs(wm - wi) <= Fraction(1, 10 ** 12) * (abs(wm) + Fraction(1, 1000))
                                              for (pm, wm), (pi, wi) in zip(mr, ir))
            if not same:
                chk.violation('corr:C05/model-function', 'published-rule-differs-from-model', sig, fk,
                              dict(stop=k, model_points=len(mr), impl_points=len(ir),
                                   first_difference=str(next(((x, y) for x, y in zip(mr, ir) if x != y), None))[:300]), failing_input=not item['ok'])
            else:
                chk.count('published rule = AccumDW.published_of_stripes (as a multiset of weighted points)')
        else:
            total, vals = m
            scale = item['scale']
            if not close(item['rep'][j], sx.q(total), scale[j]):
                chk.violation('corr:C05/model-function', 'recomputation-by-model-differs', sig, fk,
                              dict(stop=k, component=j, model=float(sx.q(total)), reported=A.unfl(item['rep'][j])), failing_input=True)
                continue
            ids = [i for i, _, _ in item['es']['areas']]
            av = {i: v for i, v in item['areas']}
            bad = [i for i, mv in zip(ids, vals) if i not in av or not close(av[i][j], sx.q(mv), scale[j])]
            if bad:
                chk.violation('corr:C05/model-function', 'area-result-differs-from-model', sig, fk, dict(stop=k, component=j, areas=bad[:5]), failing_input=False)
            else:
                chk.count('reported value and area results = AccumES.es_area_value over the C07 local combinations')


def q2f(h):
    return Fraction(A.unfl(h))


def finish_rules(chk, todo):
    """second model pass: combined rule of every recorded rule (sub 2), component 0 .. nout-1"""
    jobs, meta = [], []
    finish_model_functions(chk, todo)
    for ev in todo:
        for item in getattr(ev, 'late', []):
            if 'rule' not in item:
                continue
            rule = item['rule']
            nout = len(item['applied'])
            for j in range(nout):
                sch = []
                for c, pts, wts in rule['comp']:
                    case = item['fk']
                    sch.append([q(c), [[A.exact_eval(case['comps'], p)[j], q(w)] for p, w in zip(pts, wts)]])
                jobs.append((2, sch)); meta.append((item, j))
    res = run_model(5, jobs)
    for (item, j), m in zip(meta, res):
        if sx.is_err(m):
            chk.violation('corr:C05/rule', 'model-rejects', item['sig'], item['fk'], dict(model=str(m)[:200]), failing_input=False)
            continue
        weights, applied, combined = m
        mw = [sx.q(w) for w in weights]
        iw = [q(w) for w in item['rule']['weights']]
        if sorted(mw) != sorted(iw):          # the rule is a multiset of weighted points: the order in which the component grids are walked is incidental
            chk.violation('corr:C05/rule', 'combined-weights-differ', item['sig'], item['fk'],
                          dict(stop=item['k'], model=[float(x) for x in mw][:12], impl=[float(x) for x in iw][:12]), failing_input=not item['ok'])
        if sx.q(applied) != sx.q(combined) or sx.q(applied) != item['applied'][j]:
            chk.violation('corr:C05/rule', 'rule-value-differs', item['sig'], item['fk'],
                          dict(stop=item['k'], model=float(sx.q(applied)), harness=float(item['applied'][j])), failing_input=not item['ok'])
        chk.count('rules-combined-by-model')


_C2 = [[[1, [2, 0]], [3, [1, 1]]], [[2, [0, 2]], [1, [0, 0]]]]
CORPUS = [
    # exemplars of the known findings: evaluate_final_combi / reevaluate_at_end double the result; returned array is the live accumulator
    dict(strat='dw', a=[0, 0], b=[1, 1], comps=_C2, ref=None, norm=0, boundary=True, lmin=1, lmax=2,
         seed=1, version=6, rebalancing=True, errcalc='lib', steps=2, cap=400),
    dict(strat='es', a=[0, 0], b=[1, 1], comps=_C2, ref=None, norm=0, boundary=True, lmin=1, lmax=2,
         seed=2, nrbe=1, auto=False, errcalc='lib', steps=2, cap=500),
    dict(strat='es', a=[-1, -1], b=[1, 1], comps=[[[4, [0, 0]]]], ref=None, norm=0, boundary=True, lmin=1, lmax=2, seed=942289536, nrbe=1,
         auto=False, errcalc='lib', steps=0, cap=500),                                   # exemplar C05-final-combi-doubles
    dict(strat='es', a=[0, 0], b=[1, 1], comps=[[[4, [0, 2]]]], ref=None, norm=0, boundary=True, lmin=1, lmax=3, seed=59545343, nrbe=2,
         auto=False, errcalc=['scripted', 322535], steps=1, cap=500),                    # exemplar C05-result-aliases-accumulator
    dict(strat='es', a=[0, 0], b=[2, 1], comps=[[[3, [1, 2]]]], ref=None, norm=0, boundary=True, lmin=1, lmax=2, seed=92740285, nrbe=1,
         auto=True, errcalc='lib', steps=2, cap=500, grid='cc'),                         # high-order grid + automatic extend/split
    dict(strat='std', a=[0, 0], b=[1, 1], comps=[[[1, [2, 0]], [3, [1, 1]]]], ref=None, norm=0, boundary=True, lmin=1, lmax=3, seed=3, pre=[2, 3]),
    dict(strat='da', a=[0, 0], b=[1, 1], comps=[[[1, [2, 0]], [3, [1, 1]]]], ref=[13 / 12], norm=0, boundary=True, lmin=1, lmax=2, seed=4, max_points=60),
    # split_single_dim with a symmetric integrand: the twin errors tie, areas are split in both dimensions at once and
    # calculate_new_twin_errors evaluates the new areas and their temporary twin parents as SIDE evaluations
    dict(strat='es', a=[0, 0], b=[1, 1], comps=[[[1, [2, 0]], [1, [0, 2]], [2, [1, 1]]]], ref=None, norm=0, boundary=True, lmin=1, lmax=2, seed=5,
         version=0, nrbe=1, auto=False, single_dim=True, errcalc='lib', steps=3, cap=500),
    dict(strat='es', a=[0, 0, 0], b=[1, 1, 1], comps=[[[2, [1, 0, 0]], [2, [0, 1, 0]], [2, [0, 0, 1]]], [[1, [1, 1, 1]]]], ref=None, norm=0, boundary=True,
         lmin=1, lmax=2, seed=6, version=1, nrbe=2, auto=False, single_dim=True, errcalc=['scripted', 77], steps=2, cap=900),
    dict(strat='es', a=[0, 0], b=[1, 1], comps=[[[1, [3, 1]], [1, [1, 3]]]], ref=None, norm=0, boundary=True, lmin=1, lmax=2, seed=7,
         version=0, nrbe=1, auto=True, single_dim=True, errcalc='lib', steps=3, cap=500),
    # exemplar C05-recalculate-frequently-double-counts (refinements_for_recalculate lowered from 100 to 2)
    dict(strat='es', a=[0, 0], b=[1, 1], comps=[[[1, [2, 0]], [3, [1, 1]]]], ref=None, norm=0, boundary=True, lmin=1, lmax=2, seed=8,
         version=0, nrbe=1, auto=False, errcalc=['scripted', 11], steps=3, cap=500, recalc=2),
    # exemplar C05-refinement-container-restart-double-counts
    dict(strat='es', a=[0, 0], b=[1, 1], comps=[[[1, [2, 0]], [3, [1, 1]]]], ref=None, norm=0, boundary=True, lmin=1, lmax=2, seed=12,
         version=0, nrbe=1, auto=False, errcalc=['scripted', 11], steps=1, cap=500, restart=True),
    dict(strat='dw', a=[0, 0], b=[1, 1], comps=_C2, ref=None, norm=0, boundary=True, lmin=1, lmax=2, seed=13, version=6, rebalancing=True,
         errcalc=['scripted', 11], steps=2, cap=400, restart=True),
    # public calls on the live object between the legs: evaluate_final_combi() at a stop, then the run is continued
    dict(strat='es', a=[0, 0], b=[1, 1], comps=[[[1, [2, 0]], [3, [1, 1]]]], ref=None, norm=0, boundary=True, lmin=1, lmax=2, seed=14,
         version=0, nrbe=1, auto=False, errcalc=['scripted', 11], steps=3, cap=500, observers=[['final'], [], ['final2', 'pw', 'call'], ['result', 'npoints', 'check', 'points']], idle=[True, False, True, False]),
    dict(strat='cell', a=[0, 0], b=[1, 1], comps=_C2, ref=None, norm=0, boundary=True, lmin=1, lmax=2, seed=15, errcalc='lib', steps=2, cap=600,
         observers=[['final'], ['npoints'], ['final']], idle=[False, False, True]),
    dict(strat='dw', a=[0, 0], b=[1, 1], comps=_C2, ref=None, norm=0, boundary=True, lmin=1, lmax=2, seed=16, version=6, rebalancing=True,
         errcalc=['scripted', 11], steps=2, cap=400, observers=[['final', 'pw'], ['call'], ['final2']], idle=[True, False, False], restart=True),
    dict(strat='es', a=[0, 0], b=[1, 1], comps=[[[1, [2, 0]], [3, [1, 1]]]], ref=None, norm=0, boundary=True, lmin=1, lmax=2, seed=17,
         version=0, nrbe=1, auto=False, single_dim=True, errcalc=['scripted', 11], steps=2, cap=500, reeval_legs=True, observers=[[], ['final'], []], restart=True),
    # many small steps of one dimension-wise object: the scheme stays the same over several stops, the refinement does not
    dict(strat='dw', a=[0, 0], b=[1, 1], comps=_C2, ref=None, norm=0, boundary=True, lmin=1, lmax=3, seed=18, version=6, rebalancing=True,
         errcalc=['scripted', 4242], steps=7, cap=800, margin=1.0, small_steps=True),
    dict(strat='cell', a=[0, 0], b=[1, 1], comps=_C2, ref=None, norm=0, boundary=True, lmin=1, lmax=2, seed=9, errcalc='lib', steps=3, cap=600),
    dict(strat='dw', a=[0, -1], b=[1, 1], comps=_C2, ref=None, norm=0, boundary=True, lmin=1, lmax=2, seed=10, version=6, rebalancing=True,
         errcalc='lib', steps=2, cap=400, op=['uq', 'Uniform'], ggrid='trapw', grid_surplusses=True, volume_weighting=True),
]


GATE_SCOPE_C05 = {
    'sparseSpACE/GridOperation.py': ['GridOperation', 'AreaOperation', 'Integration', 'Interpolation'],
    'sparseSpACE/spatiallyAdaptiveBase.py': None, 'sparseSpACE/RefinementContainer.py': None, 'sparseSpACE/StandardCombi.py': None,
    'sparseSpACE/DimAdaptiveCombi.py': None, 'sparseSpACE/spatiallyAdaptiveExtendSplit.py': None,
    'sparseSpACE/RefinementObject.py': ['RefinementObject', 'ErrorInfo', 'RefinementObjectExtendSplit', 'RefinementObjectSingleDimension'],
}


def gate_cases():
    """axis (k): numeric size gates read at run time from the source UNDER TEST on the C05 code path (scan_gates of the C02 check with
    the C05 scope); per gate g one oracle-only StandardCombi case whose component grids hold just over g points and - where affordable -
    one dimension-wise run driven until it holds more than g points; plus one fixed case larger than anything run before (> 2**16)"""
    from . import c02
    saved = c02.GATE_SCOPE
    try:
        c02.GATE_SCOPE = GATE_SCOPE_C05
        gates = c02.scan_gates()
    finally:
        c02.GATE_SCOPE = saved
    comps = [[[1, [2, 0]], [3, [1, 1]]], [[2, [0, 2]], [1, [0, 0]]]]
    out = []

    def std_beyond(g):
        for L in range(2, 16):
            pts = sum((2 ** (1 + q) + 1) * (2 ** (L - q) + 1) for q in range(L)) + sum((2 ** (1 + q) + 1) * (2 ** (L - 1 - q) + 1) for q in range(L - 1))
            if pts > g:
                return dict(strat='std', a=[0, 0], b=[1, 1], comps=comps, ref=None, norm=0, boundary=True, lmin=1, lmax=L, seed=g, oracle_only=True, gate=g)
    for g in sorted(gates):
        c = std_beyond(g)
        if c:
            out.append(c)
        if g <= 1500:
            out.append(dict(strat='dw', a=[0, 0], b=[1, 1], comps=comps, ref=None, norm=0, boundary=True, lmin=1, lmax=2, seed=g, version=6, rebalancing=True,
                            errcalc=['scripted', g], steps=60, cap=g, single_runs=False, gate=g))
            out.append(dict(strat='es', a=[0, 0], b=[1, 1], comps=comps, ref=None, norm=0, boundary=True, lmin=1, lmax=2, seed=g, version=0, nrbe=2, auto=False,
                            errcalc=['scripted', g], steps=60, cap=g, single_runs=False, gate=g))
    out.append(dict(std_beyond(2 ** 16 + 1), gate='fixed > 2**16'))
    return gates, out


def _count_options(chk, c):
    hist = chk.extra.setdefault('option_histogram', {})

    def put(name, value):
        key = '%s.%s=%s' % (c['strat'], name, value)
        hist[key] = hist.get(key, 0) + 1
    put('dim', len(c['a']))
    put('outputs', len(c['comps']))
    put('history', 'warmup' if c.get('warmup') else 'pre' if c.get('pre') else 'fresh')
    if c['strat'] in ('es', 'dw'):
        put('reference_solution', c.get('ref') is not None)
    if c['strat'] in ('es', 'dw', 'cell'):
        put('reevaluate_at_end on every leg', bool(c.get('reeval_legs')))
        put('legs without refinement (bare continue_adaptive_refinement)', sum(1 for x in c.get('idle') or [] if x))
        put('caller mutates a, b, reference in place after a stop', sum(1 for x in c.get('mutate') or [] if x))
        put('size gate case', c.get('gate', 'no'))
        for names in c.get('observers') or [[]]:
            for nme in (names or ['none']):
                put('observer between legs', nme)
    if c['strat'] in ('es', 'dw', 'cell'):
        put('errcalc', c['errcalc'] if c['errcalc'] == 'lib' else 'scripted')
        put('steps', c['steps'])
        put('lmin', c['lmin']); put('lmax', c['lmax'])
    if c['strat'] == 'es':
        put('version', c.get('version', 0)); put('automatic_extend_split', bool(c.get('auto'))); put('split_single_dim', bool(c.get('single_dim')))
        put('number_of_refinements_before_extend', c.get('nrbe', 1)); put('grid', c.get('grid', 'trap'))
        put('recalculate_frequently', c.get('recalc', False)); put('restart_with_refinement_container', bool(c.get('restart')))
        put('single_dim x auto x version', '%s/%s/%s' % (bool(c.get('single_dim')), bool(c.get('auto')), c.get('version', 0)))
    elif c['strat'] == 'dw':
        put('version', c.get('version', 6)); put('rebalancing', c.get('rebalancing', True)); put('boundary', c.get('boundary', True))
        put('chebyshev_points', c.get('chebyshev', False)); put('dim_adaptive', c.get('dim_adaptive', True))
        put('use_volume_weighting', c.get('volume_weighting', False)); put('force_balanced_refinement_tree', c.get('force_balanced', False))
        put('margin', c.get('margin', 'default')); put('grid', c.get('ggrid', 'trap'))
        put('operation', 'Integration' if c.get('op', 'int') == 'int' else 'UncertaintyQuantification/%s' % (c['op'][1],))
        put('recalculate_frequently', c.get('recalc', False)); put('restart_with_refinement_container', bool(c.get('restart')))
        put('many small steps (margin 1)', bool(c.get('small_steps')))
    elif c['strat'] == 'std':
        put('grid', c.get('grid', 'trap')); put('boundary', c.get('boundary', True)); put('levels', '%d..%d' % (c['lmin'], c['lmax']))
    elif c['strat'] == 'da':
        put('max_points', c['max_points'])


def run(chk):
    # source-derived model of the accumulation code: coq/Gen/AccumGen.v is regenerated from the tree under test (setup.sh does the same
    # under the build lock once its hook for C05 is in place; the file is rewritten only when its content changes) and the theorems
    # of Props/C05gen.v (generated code = transitions of Model/Accum.v) are obligations of this check
    import os as _os
    import subprocess as _sp
    _tr = _os.path.join(_os.path.dirname(_os.path.dirname(_os.path.dirname(_os.path.abspath(__file__)))), 'translate', 'py2gallina_c05.py')
    _r = _sp.run(['/venv/bin/python', _tr], capture_output=True, text=True)
    chk.extra['source_derived_model'] = dict(translator='harness/translate/py2gallina_c05.py', out='coq/Gen/AccumGen.v', rc=_r.returncode,
                                             stderr=_r.stderr[-500:])
    if _r.returncode != 0:
        chk.violation('theorem:Gen/AccumGen.v', 'translator-rejects-source', {'file': 'Gen/AccumGen.v'}, None, _r.stderr[-1500:], failing_input=False)
    chk.coq_obligations(extra_props=('C05gen',))
    n = chk.n(200, 5000)
    cases = CORPUS + [gen_case(chk.rng, chk.quick) for _ in range(n)]
    gates, gcases = gate_cases()
    chk.extra['size_gates_in_source_under_test'] = {str(g): w for g, w in sorted(gates.items())}
    cases += gcases
    impl = run_impl(impl_run, cases, limit=240)
    # options outside the envelope because the unchanged code raises: still raising?
    probes = [e for e in EXCLUDED if e['probe']]
    pcases = [dict(CORPUS[1], steps=0, **e['probe']) for e in probes]
    chk.extra['excluded_options'] = []
    for e, (st, r) in zip(probes, run_impl(impl_probe, pcases, limit=60)):
        seen = r[0] if st == 'exc' else st
        chk.extra['excluded_options'].append(dict(option=e['name'], expected=e['expect'], observed=seen, why=e['why']))
        if st == 'ok':
            chk.count('excluded-option-now-runs: ' + e['name'])
    chk.extra['excluded_options'] += [dict(option=e['name'], expected=e['expect'], why=e['why']) for e in EXCLUDED if not e['probe']]
    chk.extra['options_in_generator'] = OPTIONS
    mjobs, todo, keys, samples = [], [], [], []
    nside = nest = nmulti = 0
    npairs = [0]
    for c, (st, r) in zip(cases, impl):
        chk.count('strat=' + c['strat']); chk.count('dim=%d' % len(c['a'])); chk.count('history=%s' % ('warmup' if c.get('warmup') else 'pre' if c.get('pre') else 'fresh'))
        chk.count('grid=%s%s' % (c.get('grid', c.get('ggrid', 'trap')), '+auto' if c.get('auto') else ''))
        _count_options(chk, c)
        if st != 'ok':
            where = r[1] if r else ''
            if st == 'exc' and r[0] == 'RuntimeError' and 'refinement selection does not terminate' in r[2]:
                chk.count('dimadaptive-selection-hang (all surpluses zero; outside this property)')
                continue
            if st == 'exc' and r[0] == 'IndexError' and 'Function.py' in where:
                chk.count('library-exception:empty-batch (C12)')
                continue
            if st == 'exc' and r[0] == 'AssertionError' and c['strat'] == 'es' and c.get('version') == 3 and 'spatiallyAdaptiveExtendSplit.py' in where:
                chk.count('skipped: es version 3 benefit assertion (%s; outside the quantifier)' % where)
                continue
            if st == 'exc' and r[0] == 'AssertionError' and c['strat'] == 'dw' and c.get('ggrid', 'trap') in ('simpson', 'romberg', 'highorder') \
                    and ('sparseSpACE/Grid.py' in where or 'sparseSpACE/Extrapolation.py' in where):
                # the global Simpson / high-order / Romberg weights assert the quality of their rule on strongly graded refinement trees (C09)
                chk.count('skipped: quadrature-weight assertion of the %s grid (%s; C09)' % (c['ggrid'], where))
                continue
            if st == 'exc' and r[0] == 'AssertionError' and c['strat'] == 'dw' and 'spatiallyAdaptiveSingleDimension2.py' in where:
                # debugging cross-checks of the coarsening rule (get_subtraction_value) in rarely used versions: C03
                chk.count('skipped: dimension-wise coarsening assertion (version %s, %s; C03)' % (c.get('version'), where))
                continue
            if st == 'exc' and r[0] == 'AssertionError' and c['strat'] == 'es' and c.get('single_dim') and c.get('grid') and 'spatiallyAdaptiveExtendSplit.py' in where:
                # parent estimation of the high-order grids counts the children of the split parent (get_sum_sibling_value: 2 or 2**dim);
                # a split_single_dim split in several dimensions nests the children: library assertion in the error estimate
                chk.count('skipped: split_single_dim + high-order grid sibling assertion (%s)' % where)
                continue
            chk.violation('corr:C05/replay', 'impl-exception', dict(make_sig(c), exc=r[0] if r else st), c, dict(impl=str(r)))
            continue
        if c['strat'] in ('dw', 'es', 'cell'):
            todo.append(run_adaptive_checks(chk, c, r, mjobs))
            ns = len(r['stops'])
            chk.count('stops=%d' % ns)
            for s0, s1 in zip(r['stops'], r['stops'][1:]):
                if s0.get('scheme_sig') == s1.get('scheme_sig') and s0.get('ref_sig') != s1.get('ref_sig'):
                    chk.count('consecutive stops with unchanged scheme but changed refinement (%s%s)' % (c['strat'], ', rule asked at both' if 'rule' in s0 and 'rule' in s1 else ''))
                    npairs[0] += 1 if 'rule' in s0 and 'rule' in s1 else 0
            sides = sum(1 for e in r['events'] if e[0] == 2 and len(e) > 5 and not e[5])
            ests = sum(1 for e in r['events'] if e[0] == 8)
            nside += sides; nest += ests
            if sides:
                chk.count('cases with side evaluations (apply_to_combi_result=False)')
            if any(e[0] == 2 and len(e) > 5 and not e[5] for e in _after_first_stop(r['events'])):
                nmulti += 1
                chk.count('cases with side evaluations during refinement (area split in >= 2 dimensions at once)')
            if ns >= 2:
                keys.append((c['strat'], c.get('grid', c.get('ggrid', 'trap')), c.get('auto'), c.get('single_dim'), str(c['comps']), str(c.get('errcalc')), c.get('version'), c['lmax'], ns, str(c['a']), str(c['b'])))
            if len(samples) < 3 and ns >= 3:
                samples.append(dict(strat=c['strat'], comps=c['comps'], options={k: v for k, v in c.items() if k not in ('comps', 'a', 'b', 'seed')},
                                    reported=[[A.unfl(x) for x in s['reported']] for s in r['stops']],
                                    independent=[[A.unfl(x) for x in s['fresh']] for s in r['stops']], events=len(r['events'])))
        else:
            todo.append(run_simple_checks(chk, c, r, mjobs))
            if len(r['scheme']) >= 3:
                keys.append((c['strat'], str(c['comps']), c['lmin'], c['lmax'], str(c['a']), str(c['b'])))
    chk.extra['side_evaluations_logged'] = nside
    chk.extra['estimate_evaluations_logged'] = nest
    mres = run_model(5, mjobs)
    for ev in todo:
        ev(mres)
    finish_rules(chk, todo)
    print('C05 option histogram: ' + ', '.join('%s:%d' % kv for kv in sorted(chk.extra.get('option_histogram', {}).items())
                                              if any(t in kv[0] for t in ('version', 'single_dim=', 'auto', 'recalc', 'grid=', 'operation', 'chebyshev', 'dim_adaptive'))))
    print('C05 consecutive stop pairs with unchanged scheme but changed refinement at which the published rule was asked and checked: %d' % npairs[0])
    chk.extra['unchanged_scheme_changed_refinement_pairs_with_rule'] = npairs[0]
    print('C05 side evaluations logged: %d (in %d cases during refinement), estimate evaluations: %d' % (nside, nmulti, nest))
    chk.record_cases(len(cases), keys,
                     'step-wise driven dimension-wise / extend-split (versions 0..3, split_single_dim, automatic_extend_split, recalculation) / cell runs '
                     'with event log incl. side and estimate evaluations (d 2..3, lmin 1..2, 1..5 refinement steps, library and scripted error '
                     'calculators, vector polynomial integrands on dyadic boxes, Integration and UncertaintyQuantification) + StandardCombi + '
                     'DimAdaptiveCombi; non-trivial = at least one refinement step (adaptive) or >= 3 component grids (standard/dim-adaptive); '
                     'distinct by (strategy, integrand, box, options, steps)', samples)


def _after_first_stop(events):
    seen = False
    for e in events:
        if e[0] == 6:
            seen = True
        elif seen:
            yield e


def replay(chk, rep):
    c = rep['case']
    st, r = run_impl(impl_run, [c], limit=600)[0]
    print('impl:', st, str(r)[:3000])
    if st != 'ok':
        return 1
    mjobs = []
    ev = (run_adaptive_checks if c['strat'] in ('dw', 'es', 'cell') else run_simple_checks)(chk, c, r, mjobs)
    mres = run_model(5, mjobs)
    print('model:', str(mres)[:2000])
    ev(mres)
    finish_rules(chk, [ev])
    for v in chk.violations:
        print('property predicate / correspondence:', v['check'], v['kind'], v['sig'], str(v['detail'])[:600])
    print('verdict:', 'VIOLATED' if chk.violations else 'holds')
    return 1 if chk.violations else 0
