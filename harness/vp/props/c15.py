"""C15: weighted UQ quadrature is a probability measure; moments transform correctly.

Part A: GlobalTrapezoidalGridWeighted weights and weighted midpoints on refinement trees that are built with the grid's own
get_mid_point (uniform / triangle / normal distributions, finite and infinite support, boundary on/off, modified basis for
uniform). The model (Model/UQ.v) receives the interval moments the implementation's distribution object returned and must
reproduce the weights; the closed-form uniform / triangle instances of the model are compared with these moments and weights.
Part B: calculate_expectation_and_variance on a vector model (f, c f + e) sharing one adaptively refined grid."""
import math
import random
from fractions import Fraction as F
from .. import sx
from ..impl import run_impl
from ..model import run_model
from . import _c15_gen

ASSUMPTIONS = [
    _c15_gen.ASSUMPTION,
    'the distribution enters the model through the interval moments returned by the implementation (chaospy / scipy cdf, '
    'scipy.integrate.quad); the hypotheses of the theorems on these moments (m0 >= 0, x1*m0 <= m1 <= x2*m0, sum m0 = 1) are '
    'spot-checked numerically in every run (normal moments are transcendental)',
    'weights: |impl - model| <= 2^-40 * (conditioning of the weight formula) ; expectation/variance: model = moments_to_'
    'expectation_variance on the implementation\'s combined integral, |impl - model| <= 2^-45 * (|mom2| + mom1^2)',
    'first moments of the triangle distribution are computed by the implementation with epsrel=1e-2, epsabs=inf (one Gauss-'
    'Kronrod pass): compared with the closed form at tolerance 1e-2 * m0 * max(|x1|,|x2|) (the scale of the integrand; an interval '
    'straddling 0 has a first moment near 0 by cancellation), maximal deviation recorded in evidence; normal distribution: finite '
    'intervals compared with the closed form mu*m0 - sigma*(phi(z2)-phi(z1)) evaluated by the harness (math.erfc/exp) at 1e-6 * m0 * max|x|',
    'sum-to-one with boundary points is checked against cdf(b)-cdf(a) (equal to 1 when [a,b] covers the support)',
    'uniform distribution, boundary=False: the weights are the inner unweighted trapezoidal weights RENORMALISED to sum 1 '
    '(not divided by b-a); boundary=True: divided by b-a',
    'affine laws: tolerance 1e-9 * (|c| G + |e|) for E and 1e-9 * (|c| G + |e|)^2 * (1 + sum |w|) for Var, G = bound of |f|',
    'grid histories: the weights of a dimension are compared with a fresh one-dimensional grid object of the same distribution (1e-13 relative: '
    'same floating point operations), the tensor weights with the float products of the 1D weights (1e-14 relative) and with the model '
    '(1D tolerances propagated through the product; grids of up to 300 points)',
    'combined rule: combined weights of a run vs coefficient * tensor product of static compute_weights on fresh distribution objects (1e-12); '
    'model integral / expectation / variance from the implementation\'s nodes, weights and model values at 2^-40 * sum |w||v| (2^-38 for Var)',
    'excluded axis values (the unchanged code raises): Laplace distribution (chaospy: TypeError unexpected keyword scale), Triangle with mode at '
    'the upper end (chaospy cdf(b) = 0 -> calculated negative weight), Triangle mode given as int (assert invalid midpoint), duplicate or '
    'unsorted grid points (assert), modified basis with boundary points (assert in GlobalTrapezoidalGrid.compute_weights), n = 2 without boundary '
    'points (assert boundary or num_points > 3), scale_weights=True (needs a basis grid), calculate_expectation on the combined integral while the '
    'expectation-variance function is set (assert on the output length), |a| >= 128 for the +-1e-14 fallback (not representable)',
]

T40 = F(1, 2 ** 40)
MAXDEPTH = 20


def ext(x):
    if isinstance(x, float) and math.isinf(x):
        return [1] if x > 0 else [-1]
    return [0, sx.rat(x)]


def qq(v):
    return v if isinstance(v, F) else sx.q(v)


def ext_float(e):
    if e == [1]:
        return math.inf
    if e == [-1]:
        return -math.inf
    return float(qq(e[1]))


# ----------------------------------------------------------------------------------------------- generators
def gen_distribution(rng, mag=0):
    """mag: 0 = O(1) domains only; 1 = 15% of the cases on the domains / parameters of the magnitude axis (lesson d); 2 = the same without the
    domain 1e6 + [0, 1] (adaptive runs: the triangle first moment of the unchanged code breaks down there, known finding)."""
    r = rng.random()
    big = mag and rng.random() < 0.15
    magd = MAG_DOMAINS if mag == 1 else MAG_DOMAINS[:3]
    magn = MAG_NORMALS if mag == 1 else MAG_NORMALS[:2]
    if r < 0.3:
        a, b = rng.choice(magd) if big else rng.choice([(0.0, 1.0), (-1.0, 3.0), (2.0, 2.5), (-3.0, 6.0)])
        return ('Uniform',), a, b
    if r < 0.6:
        a, b = rng.choice(magd) if big else rng.choice([(0.0, 1.0), (-1.0, 3.0), (2.0, 2.5), (0.0, 2.0)])
        c = a + (b - a) * rng.choice([0.25, 0.5, 0.75, 0.125, 0.3, 0.9, 0.0])     # 0.0: mode at the lower end (c = b: chaospy's cdf(b) = 0, excluded)
        return ('Triangle', c), a, b
    mu, sigma = rng.choice(magn) if big else rng.choice([(0.2, 1.0), (0.0, 2.0), (-3.0, 0.5), (10.0, 0.25), (0.0, 1.0)])
    r = rng.random()
    if r < 0.6:
        return ('Normal', mu, sigma), -math.inf, math.inf
    k = rng.choice([2.0, 4.0, 8.0])       # finite support: the weights then sum to cdf(b)-cdf(a) with boundary points
    if r < 0.7:
        return ('Normal', mu, sigma), mu - k * sigma, math.inf
    if r < 0.8:
        return ('Normal', mu, sigma), -math.inf, mu + k * sigma
    return ('Normal', mu, sigma), mu - k * sigma, mu + k * sigma


def gen_weight_case(rng):
    distr, a, b = gen_distribution(rng, mag=1)
    boundary = rng.random() < 0.5
    mb = (distr[0] == 'Uniform') and (not boundary) and rng.random() < 0.3
    r = rng.random()
    n = rng.choice([1, 2, 3, 3, 4, 5, 6]) if r < 0.3 else (rng.randrange(7, 25) if r < 0.8 else rng.randrange(25, 61))
    style = rng.choice(['uniform', 'left', 'right', 'ends', 'random'])
    if r >= 0.97:                         # beyond typical block sizes / thresholds (64, 200, 256, 1024)
        n = rng.choice([65, 130, 201, 257, 515, 1025])
        style = rng.choice(['uniform', 'random'])
    picks = [rng.random() for _ in range(max(0, n - 2))]
    xm = []
    if rng.random() < 0.5 and not (distr[0] == 'Normal' and (abs(distr[1]) > 64 or distr[2] > 64)):      # a + 1e-14 must be representable
        # intervals on which ppf cannot deliver an inner point: the fallbacks of get_middle_weighted (far tails: cdf differences
        # underflow; outside the support). |a|, |b| stay below 64 so that a + 1e-14 is representable.
        if distr[0] == 'Normal':
            mu, sg = distr[1], distr[2]
            sg_ = min(sg, 0.5)
            xm = rng.sample([[-math.inf, mu - 40 * sg], [mu + 40 * sg_, math.inf], [mu + 40 * sg_, mu + 41 * sg_], [mu - 50 * sg_, mu - 45 * sg_],
                             [-math.inf, math.inf], [mu - sg, math.inf], [-math.inf, mu + 0.5 * sg], [mu + 9 * sg_, math.inf]], 3)
        else:
            L = b - a
            xm = rng.sample([[a - 2 * L, a - L], [b + L, b + 2 * L], [a - L, a], [b, b + L], [a - L, b + L], [a, b], [a - L, a + 0.25 * L]], 3)
    # ctor: how the grid object is constructed (keyword arguments / positional / defaults where they equal the request)
    return dict(kind='weights', extra_mids=xm, distr=list(distr), a=a, b=b, boundary=boundary, mb=mb, n=n, style=style, picks=picks,
                ctor=rng.choice(['kw', 'kw', 'pos', 'default']))


def gen_peaked_case(rng):
    """d = 2, sharply peaked or oscillating model, few refinement steps: the combination technique's negative coefficients then
    give combined moments with E[f^2] < E[f]^2 (negative raw variance) on a large share of the cases."""
    r = rng.random()
    if r < 0.45:
        distrs, a, b = [['Uniform'], ['Uniform']], [0.0, 0.0], [1.0, 1.0]
        boundary = rng.random() < 0.5
        pos = list(rng.choice([(0.5, 0.5), (0.3, 0.6), (0.25, 0.75), (0.5, 0.25), (0.625, 0.375)]))
        width = rng.choice([50.0, 200.0, 800.0])
    elif r < 0.9:
        mu = rng.choice([0.0, 0.2])
        distrs, a, b = [['Normal', mu, 1.0], ['Normal', mu, 1.0]], [-math.inf, -math.inf], [math.inf, math.inf]
        boundary = False
        pos = list(rng.choice([(0.0, 0.0), (0.5, -0.5), (1.0, 0.0), (0.2, 0.2)]))
        width = rng.choice([2.0, 8.0, 30.0])
    else:
        distrs, a, b = [['Uniform'], ['Normal', 0.0, 1.0]], [0.0, -math.inf], [1.0, math.inf]
        boundary = False
        pos = [rng.choice([0.5, 0.25]), rng.choice([0.0, 0.5])]
        width = rng.choice([8.0, 50.0])
    model = rng.choice(['peak', 'peak', 'osc'])
    if model == 'osc' and distrs[0][0] == 'Uniform' and distrs[1][0] == 'Uniform':
        width = 2.0 * math.sqrt(width)
    maxev, lmax = rng.choice([(1, 2), (10, 2), (10, 2), (25, 2), (10, 3), (40, 3)])
    return dict(kind='moments', distrs=distrs, a=a, b=b, boundary=boundary, c=rng.choice([2.0, -3.0, 0.5, -1.0, 4.0]),
                e=rng.choice([0.0, 1.0, -2.0, 7.0, 0.25]), model=model, pos=pos, width=width, const=0.0, maxev=maxev, lmax=lmax)


def gen_shared_domain_case(rng):
    """d = 2..3, differently distributed dimensions on ONE domain, symmetric families first: their refinement trees produce equal 1D
    point lists ([a, (a+b)/2, b], [-inf, mu, inf], and deeper for equal distributions) in differently distributed dimensions."""
    dim = rng.choice([2, 2, 3])
    if rng.random() < 0.7:
        lo, hi = rng.choice(FIN_DOMAINS)
        mid = 0.5 * (lo + hi)
        fams = [['Uniform'], ['Triangle', mid], ['Triangle', mid], ['Triangle', lo + 0.25 * (hi - lo)], ['Triangle', lo]]
        boundary = rng.random() < 0.6
    else:
        lo, hi = -math.inf, math.inf
        mu = rng.choice([0.0, 0.2])
        fams = [['Normal', mu, 1.0], ['Normal', mu, 2.0], ['Normal', mu, 0.5]]
        boundary = False
    distrs = [list(rng.choice(fams)) for _ in range(dim)]
    if all(x == distrs[0] for x in distrs):
        distrs[-1] = list(next(f for f in fams if f != distrs[0]))
    return dict(kind='moments', distrs=distrs, a=[lo] * dim, b=[hi] * dim, boundary=boundary, c=rng.choice([2.0, -3.0, 0.5, -1.0, 0.0]),
                e=rng.choice([0.0, 1.0, -2.0, 7.0]), model=rng.choice(['smooth', 'jump', 'const', 'smooth']), const=rng.choice([1.75, -2.0]),
                maxev=rng.choice([15, 30, 50]) if dim == 2 else rng.choice([15, 30]), lmax=2, stages=rng.choice([0, 0, 1]), outputs=rng.choice([2, 2, 3]))


def gen_moment_case(rng):
    c = _gen_moment_case(rng)
    c['fscale'] = rng.choice([1.0, 1.0, 1.0, 1.0, 2.0 ** -40, 2.0 ** -30, 2.0 ** -16, 2.0 ** -8, 2.0 ** 10, 2.0 ** 20])          # magnitude of the model output (lesson d)
    if len(c['a']) == 2 and rng.random() < 0.03:
        c['maxev'] = 300                                                         # a run well beyond the usual sizes (lesson h)
    if rng.random() < 0.2:
        # the affine map itself across magnitudes: Var[c f] = c^2 Var[f] puts the two outputs of ONE run many orders of magnitude apart
        # (an absolute threshold anywhere between them breaks the law)
        c['c'] = rng.choice([2.0 ** -36, 2.0 ** -20, -2.0 ** -12, 2.0 ** 14, 2.0 ** 30])
        c['e'] = 0.0
    return c


def _gen_moment_case(rng):
    r = rng.random()
    if r < 0.4:
        return dict(gen_peaked_case(rng), stages=rng.choice([0, 0, 0, 1]))
    if r < 0.65:
        return gen_shared_domain_case(rng)
    dim = rng.choice([1, 2, 2, 2])
    distrs, a, b = [], [], []
    for _ in range(dim):
        d, lo, hi = gen_distribution(rng, mag=2)
        distrs.append(list(d)); a.append(lo); b.append(hi)
    infinite = any(math.isinf(x) for x in a + b)
    boundary = (not infinite) and rng.random() < 0.4
    c = rng.choice([2.0, -3.0, 0.5, 1.0, -1.0, 4.0, 0.0, 1024.0])
    e = rng.choice([0.0, 1.0, -2.0, 7.0, 0.25, -4096.0])
    return dict(kind='moments', distrs=distrs, a=a, b=b, boundary=boundary, c=c, e=e, model=rng.choice(['smooth', 'jump', 'const']),
                const=rng.choice([1.75, -2.0, 0.0]), maxev=rng.choice([20, 40, 70]), lmax=rng.choice([2, 2, 3]), stages=rng.choice([0, 0, 1]), outputs=rng.choice([2, 2, 3]))


# ----------------------------------------------------------------------------------------------- implementation workers
def _exc(e):
    import traceback
    tb = traceback.extract_tb(e.__traceback__)
    where = ''
    for fr in reversed(tb):
        if 'sparseSpACE' in fr.filename:
            where = '%s:%d' % (fr.filename.split('/')[-1], fr.lineno)
            break
    return ('exc', type(e).__name__, where, str(e)[:160])


def _f(x):
    import numpy as np
    return float(np.asarray(x).reshape(-1)[0])


def make_grid(a, b, op, boundary, mb, ctor='kw'):
    from sparseSpACE.Grid import GlobalTrapezoidalGridWeighted
    if ctor == 'pos':
        return GlobalTrapezoidalGridWeighted(a, b, op, boundary, mb)
    if ctor == 'default':
        kw = {}
        if boundary is not True:
            kw['boundary'] = boundary
        if mb is not False:
            kw['modified_basis'] = mb
        return GlobalTrapezoidalGridWeighted(a, b, op, **kw)
    return GlobalTrapezoidalGridWeighted(a, b, op, boundary=boundary, modified_basis=mb)


def normal_reference_moments(distr, pts):
    """Closed form of the interval moments of Normal(mu, sigma) on the FINITE intervals (math.erfc / exp only; independent of the
    implementation's distribution objects and their caches). Infinite intervals: None (their first moment does not enter the weights)."""
    mu, sg = float(distr[1]), float(distr[2])

    def Phi(z):
        return 0.5 * math.erfc(-z / math.sqrt(2.0))

    def phi(z):
        return math.exp(-0.5 * z * z) / math.sqrt(2.0 * math.pi)
    out = []
    for x1, x2 in zip(pts, pts[1:]):
        if math.isinf(x1) or math.isinf(x2):
            z1 = -math.inf if math.isinf(x1) else (x1 - mu) / sg
            z2 = math.inf if math.isinf(x2) else (x2 - mu) / sg
            out.append((sx.rat((1.0 if z2 == math.inf else Phi(z2)) - (0.0 if z1 == -math.inf else Phi(z1))), None))
            continue
        z1, z2 = (x1 - mu) / sg, (x2 - mu) / sg
        r0 = Phi(z2) - Phi(z1) if z1 < 0 else 0.5 * (math.erfc(z1 / math.sqrt(2.0)) - math.erfc(z2 / math.sqrt(2.0)))
        out.append((sx.rat(r0), sx.rat(mu * r0 - sg * (phi(z2) - phi(z1)))))
    return out


def build_tree(g, dobj, d, a, b, n, style, picks, mids, cap=10 ** 9):
    """Refinement tree with n points on [a, b] built with the grid's own (probability-halving) midpoint g.get_mid_point(., ., d);
    every midpoint evaluation is recorded in `mids` together with the cdf values of the distribution object `dobj`."""
    if n == 1:
        return [0.5 * (a + b) if not (math.isinf(a) or math.isinf(b)) else 0.0], [0]
    iv = [(a, b, 0, 0, 0)]
    for r in picks[:max(0, n - 2)]:
        # depth cap: below ~2^-20 of the support the interval moments (cdf differences) lose their digits - a limit of
        # double precision, not of the rule
        cand = [j for j in range(len(iv)) if iv[j][4] < MAXDEPTH]
        if not cand:
            break
        if style == 'left':
            i = cand[0] if r < 0.85 else cand[int(r * len(cand)) % len(cand)]
        elif style == 'right':
            i = cand[-1] if r < 0.85 else cand[int(r * len(cand)) % len(cand)]
        elif style == 'ends':
            i = cand[0] if r < 0.45 else (cand[-1] if r < 0.9 else cand[int(r * len(cand)) % len(cand)])
        elif style == 'uniform':
            i = min(cand, key=lambda j: (iv[j][4], j))          # breadth first: the regular tree
        else:
            i = cand[int(r * len(cand)) % len(cand)]
        s, e, l0, l1, dp = iv[i]
        mid = g.get_mid_point(s, e, d)
        if cap <= 0 and s < mid < e:
            nl = max(l0, l1) + 1
            iv[i:i + 1] = [(s, mid, l0, nl, dp + 1), (mid, e, nl, l1, dp + 1)]
            continue
        cap -= 1
        ca, cb = _f(dobj.cdf(s)), _f(dobj.cdf(e))
        mid0 = dobj.ppf(0.5 * (ca + cb))
        rec = dict(a=ext(s), b=ext(e), cdf_a=sx.rat(ca), cdf_b=sx.rat(cb), mid0=ext(float(mid0)) if not math.isnan(float(mid0)) else None,
                   mid=ext(float(mid)) if not math.isnan(float(mid)) else None,
                   cdf_mid=sx.rat(_f(dobj.cdf(mid))) if not math.isnan(float(mid)) else None,
                   is_float=isinstance(mid, float), d=d)
        mids.append(rec)
        if not (s < mid < e):
            break                                   # the refinement object would assert here
        nl = max(l0, l1) + 1
        iv[i:i + 1] = [(s, mid, l0, nl, dp + 1), (mid, e, nl, l1, dp + 1)]
    return [iv[0][0]] + [x[1] for x in iv], [iv[0][2]] + [x[3] for x in iv]


def impl_weights(case):
    import numpy as np
    import warnings
    warnings.filterwarnings('ignore')
    from sparseSpACE.Grid import GlobalTrapezoidalGridWeighted, GlobalTrapezoidalGrid
    from sparseSpACE.GridOperation import UncertaintyQuantification
    from sparseSpACE.Function import FunctionLinear
    a, b = case['a'], case['b']
    distr = tuple(case['distr'])
    out = dict(mids=[])
    try:
        op = UncertaintyQuantification(FunctionLinear([1.0]), [distr], [a], [b])
        g = make_grid([a], [b], op, case['boundary'], case['mb'], case.get('ctor', 'kw'))
        d = op.get_distributions()[0]
        # refinement tree built with the grid's own (probability-halving) midpoint
        pts, lev = build_tree(g, d, 0, a, b, case['n'], case['style'], case['picks'], out['mids'])
        for s_, e_ in case.get('extra_mids', ()):
            build_tree(g, d, 0, float(s_), float(e_), 3, 'random', [0.0], out['mids'])
            out['mids'][-1]['extra'] = 1
        out['pts'] = [ext(float(x)) for x in pts]
        out['levels'] = lev
        out['cdf_ab'] = (sx.rat(_f(d.cdf(a))), sx.rat(_f(d.cdf(b))))
    except Exception as e_:
        out['setup'] = _exc(e_)
        return out
    try:
        g.set_grid([list(pts)], [list(lev)])
        out['weights'] = ('ok', [sx.rat(float(w)) for w in g.weights[0]], [ext(float(x)) for x in g.coordinate_array[0]])
    except Exception as e_:
        out['weights'] = _exc(e_)
    try:
        w = GlobalTrapezoidalGridWeighted.compute_weights(list(pts), a, b, d, case['boundary'], case['mb'])
        out['static'] = ('ok', [sx.rat(float(x)) for x in w])
    except Exception as e_:
        out['static'] = _exc(e_)
    # the moments the distribution object hands to compute_weights (cached: identical values)
    try:
        out['moments'] = [(sx.rat(_f(d.get_zeroth_moment(pts[i], pts[i + 1]))), sx.rat(_f(d.get_first_moment(pts[i], pts[i + 1]))))
                          for i in range(len(pts) - 1)]
    except Exception as e_:
        out['moments'] = _exc(e_)
    if distr[0] == 'Uniform':
        try:
            out['trap'] = [sx.rat(float(x)) for x in GlobalTrapezoidalGrid.compute_weights(list(pts), a, b, case['mb'])]
        except Exception as e_:
            out['trap'] = None
    if distr[0] == 'Normal':
        out['normal_ref'] = normal_reference_moments(distr, [float(x) for x in pts])
    return out


def impl_moments(case):
    import numpy as np
    import warnings
    warnings.filterwarnings('ignore')
    from sparseSpACE.Function import Function
    from sparseSpACE.spatiallyAdaptiveSingleDimension2 import SpatiallyAdaptiveSingleDimensions2
    from sparseSpACE.ErrorCalculator import ErrorCalculatorSingleDimVolumeGuided
    from sparseSpACE.GridOperation import UncertaintyQuantification
    from sparseSpACE.Grid import GlobalTrapezoidalGridWeighted
    c, e, kind, const = case['c'], case['e'], case['model'], case['const']
    dim = len(case['a'])

    class Model(Function):
        def eval(self, x):
            if kind == 'const':
                gv = const
            elif kind == 'peak':
                gv = math.exp(-case['width'] * sum((x[d] - case['pos'][d]) ** 2 for d in range(dim)))
            elif kind == 'osc':
                gv = math.cos(case['width'] * (x[0] - case['pos'][0])) * math.cos(case['width'] * (x[-1] - case['pos'][-1]))
            elif kind == 'smooth':
                gv = math.sin(x[0]) + (0.5 * math.cos(2.0 * x[-1]) if dim > 1 else 0.25)
            else:
                gv = math.sin(x[0]) + (1.0 if x[-1] > 0.3 else 0.0)
            fs = case.get('fscale', 1.0)
            return [fs * gv, fs * (c * gv + e)] + ([fs * const] if case.get('outputs', 2) == 3 else [])

        def output_length(self):
            return case.get('outputs', 2)
    a = np.array(case['a']); b = np.array(case['b'])

    def build():
        """One pipeline: operation, grid, adaptive run up to case['maxev'] evaluations. The argument objects are returned for the
        immutability comparison (lesson a)."""
        a_arg, b_arg = np.array(case['a'], dtype=float), np.array(case['b'], dtype=float)
        darg = [tuple(d) for d in case['distrs']]
        snaps = (_snap(a_arg), _snap(b_arg), _snap(darg))
        op_ = UncertaintyQuantification(Model(), darg, a_arg, b_arg)
        grid_ = GlobalTrapezoidalGridWeighted(a_arg, b_arg, op_, boundary=case['boundary'])
        op_.set_grid(grid_)
        op_.set_expectation_variance_Function()
        ci_ = SpatiallyAdaptiveSingleDimensions2(a_arg, b_arg, operation=op_, norm=2, use_volume_weighting=True, grid_surplusses=op_.get_grid())
        ci_.performSpatiallyAdaptiv(1, case['lmax'], ErrorCalculatorSingleDimVolumeGuided(), tol=0, max_evaluations=case['maxev'],
                                    print_output=False)
        return op_, ci_, (a_arg, b_arg, darg), snaps

    def changed(args, snaps):
        return [n for n, x, s_ in zip(('a', 'b', 'distributions'), args, snaps) if _snap(x) != s_]
    try:
        op, ci, args, snaps = build()
        E, V = op.calculate_expectation_and_variance(ci)
        P, W = ci.get_points_and_weights()
        allv = [float(x) for x in list(E) + list(V) + list(op.get_result()) + [sum(W)]]
        if any(math.isnan(x) or math.isinf(x) for x in allv):
            return ('nan', dict(E=[float(x) for x in E], V=[float(x) for x in V], wsum=float(sum(W)), npoints=len(W)))
        res = dict(integral=[sx.rat(float(x)) for x in op.get_result()], E=[sx.rat(float(x)) for x in E],
                   V=[sx.rat(float(x)) for x in V], wsum=sx.rat(float(sum(W))), wabs=sx.rat(float(sum(abs(w) for w in W))),
                   npoints=len(W), arg_mut=changed(args, snaps), aliasing=[])
        Wl = [float(w) for w in W]
        Pl = [tuple(float(t) for t in pt) for pt in P]
        # ---- lesson c: overwrite everything the calls returned; later calls must not see the sentinel
        try:
            for obj in (E, V, W, op.get_result()):
                for i_ in range(len(obj)):
                    obj[i_] = SENTINEL
            if isinstance(P, np.ndarray) and P.size:
                P[:] = SENTINEL
        except (TypeError, ValueError):
            pass
        # ---- the same quantities through the other public paths, on the same live objects (lessons e, f)
        try:
            E2, V2 = op.calculate_expectation_and_variance(ci)                                   # repeated call
            res['again'] = ([sx.rat(float(x)) for x in E2], [sx.rat(float(x)) for x in V2])
            En, Vn = op.calculate_expectation_and_variance(ci, use_combiinstance_solution=False)   # from nodes, weights, model evaluations
            res['nodes'] = ([sx.rat(float(x)) for x in En], [sx.rat(float(x)) for x in Vn])
            res['expectation'] = [sx.rat(float(x)) for x in op.calculate_expectation(ci, use_combiinstance_solution=False)]
            E4, V4 = op.calculate_expectation_and_variance(ci)                                   # back on the default path
            res['again2'] = ([sx.rat(float(x)) for x in E4], [sx.rat(float(x)) for x in V4])
            W5 = ci.get_points_and_weights()[1]
            if [float(w) for w in W5] != Wl:
                res['aliasing'].append('get_points_and_weights')
            if [sx.rat(float(x)) for x in op.get_result()] != res['integral']:
                res['aliasing'].append('get_result')
        except Exception as e_:
            res['paths_exc'] = _exc(e_)
        if len(Wl) <= 2500:
            mdl = op.f_model
            res['W'] = [sx.rat(w) for w in Wl]
            res['F'] = [[sx.rat(float(v)) for v in mdl.eval(pt)] for pt in Pl]
            # ---- the component grids of the combination: 1D point lists, this dimension's moments, reference weights computed with
            # FRESH one-dimensional distribution objects through the static compute_weights
            fd = [UncertaintyQuantification(Model(), [tuple(case['distrs'][d])], a[d:d + 1], b[d:d + 1]).get_distributions()[0] for d in range(dim)]
            dobjs = op.get_distributions()
            comps = []
            for cg in ci.scheme:
                pts, lev, _ = ci.get_point_coord_for_each_dim(cg.levelvector)
                cd = dict(coeff=int(cg.coefficient), levelvector=[int(x) for x in cg.levelvector], pts=[], moments=[], ref=[])
                for d in range(dim):
                    pl = [float(x) for x in pts[d]]
                    cd['pts'].append([ext(x) for x in pl])
                    cd['moments'].append([(sx.rat(_f(dobjs[d].get_zeroth_moment(pl[i], pl[i + 1]))), sx.rat(_f(dobjs[d].get_first_moment(pl[i], pl[i + 1]))))
                                          for i in range(len(pl) - 1)])
                    cd['ref'].append([sx.rat(float(x)) for x in GlobalTrapezoidalGridWeighted.compute_weights(pl, a[d], b[d], fd[d], case['boundary'], False)])
                comps.append(cd)
            res['comps'] = comps
        res['arg_mut'] = sorted(set(res['arg_mut'] + changed(args, snaps)))
        if case.get('stages'):
            # ---- history: continue the refinement on the same objects and evaluate again ...
            try:
                ci.continue_adaptive_refinement(tol=0, max_evaluations=case['maxev'] + 25)
                E3, V3 = op.calculate_expectation_and_variance(ci)
                P3, W3 = ci.get_points_and_weights()
                res['stage2'] = dict(E=[sx.rat(float(x)) for x in E3], V=[sx.rat(float(x)) for x in V3], wsum=sx.rat(float(sum(W3))),
                                     wabs=sx.rat(float(sum(abs(w) for w in W3))), npoints=len(W3), integral=[sx.rat(float(x)) for x in op.get_result()])
            except Exception as e_:
                res['stage2_exc'] = _exc(e_)
            # ---- ... and a twin pipeline WITHOUT any observer call between the stop and the continuation (lesson e): bit-identical
            try:
                op_t, ci_t, _, _ = build()
                ci_t.continue_adaptive_refinement(tol=0, max_evaluations=case['maxev'] + 25)
                Et, Vt = op_t.calculate_expectation_and_variance(ci_t)
                res['twin'] = dict(E=[sx.rat(float(x)) for x in Et], V=[sx.rat(float(x)) for x in Vt], integral=[sx.rat(float(x)) for x in op_t.get_result()])
            except Exception as e_:
                res['twin_exc'] = _exc(e_)
        return ('ok', res)
    except Exception as e_:
        return _exc(e_)


# ----------------------------------------------------------------------------------------------- part A
def check_weights(chk, cases, impl, keys, samples, origin=None, tag='weights'):
    """cases / impl: one-dimensional weight requests and what the implementation returned for them. Part A passes its own cases; the
    grid histories (part C) pass one pseudo case per (step, dimension) with origin(i) = the whole history up to that step."""
    mcases, midx = [], []
    gcases, gidx = [], []
    slim = (lambda c: {k: v for k, v in c.items() if k != '_i'}) if origin is None else (lambda c: origin(c['_i']))
    for i, c in enumerate(cases):
        c['_i'] = i
    for i, c in enumerate(cases):
        st, r = impl[i]
        fam = c['distr'][0]
        chk.count('%s:%s boundary=%d modified=%d' % (tag, fam, c['boundary'], c['mb']))
        chk.count('%s:n=%s' % (tag, size_class(len(r['pts'])) if st == 'ok' and 'pts' in r else '?'))
        if fam == 'Triangle':
            chk.count('%s:triangle mode %s' % (tag, 'at lower end' if c['distr'][1] == c['a'] else ('centre' if 2 * c['distr'][1] == c['a'] + c['b'] else 'inner')))
        if fam == 'Normal':
            chk.count('%s:normal support %s' % (tag, 'R' if math.isinf(c['a']) and math.isinf(c['b']) else
                                                ('half-infinite' if math.isinf(c['a']) or math.isinf(c['b']) else 'finite')))
        if 'ctor' in c:
            chk.count('%s:constructor arguments %s' % (tag, c['ctor']))
        sig0 = dict(family=fam, boundary=int(c['boundary']), mb=int(c['mb']), infinite=int(math.isinf(c['a']) or math.isinf(c['b'])))
        chk.count('%s:magnitude %s' % (tag, magnitude_class(c['a'], c['b'], c['distr'])))
        if st != 'ok' or 'setup' in r:
            chk.violation('corr:C15/weights', 'worker-failed', dict(sig0, status=st), slim(c), dict(impl=str(r)[:400]))
            continue
        # --- weighted midpoints: model of get_middle_weighted + oracle (strictly inside, equal probability)
        for rec in r['mids']:
            chk.count('mid:evaluated')
            if rec.get('extra'):
                chk.count('mid:fallback query %s' % ('ppf delivers an inner point' if rec['mid0'] is not None and rec['mid0'] == rec['mid'] else
                                                     ('0.5*(a+b)' if rec['a'][0] == 0 and rec['b'][0] == 0 else
                                                      ('NaN' if rec['mid'] is None else 'finite end -+ 1e-14'))))
            if rec['mid0'] is not None:
                mcases.append((4, [rec['a'], rec['b'], rec['mid0']])); midx.append((i, 'mid', rec))
            o = oracle_mid(rec)
            if o:
                chk.violation('oracle:mid/' + o[0], 'mid-' + o[0], dict(family=fam, infinite=sig0['infinite']),
                              dict(kind='mid', distr=c['distr'], a=ext_float(rec['a']), b=ext_float(rec['b'])) if origin is None else slim(c),
                              dict(text=o[1], record=str(rec)[:400]))
        pts = r['pts']
        n = len(pts)
        if isinstance(r['moments'], tuple) and r['moments'] and r['moments'][0] == 'exc':
            chk.violation('corr:C15/weights', 'moments-raise', sig0, slim(c), dict(impl=str(r['moments'])))
            continue
        ivs = [[pts[j], pts[j + 1], r['moments'][j][0], r['moments'][j][1]] for j in range(n - 1)]
        fa = F(c['a']) if not math.isinf(c['a']) else F(0)
        fb = F(c['b']) if not math.isinf(c['b']) else F(0)
        mcases.append((0, [c['boundary'], c['mb'], fa, fb, ivs])); midx.append((i, 'w', None))
        # the same request for the SOURCE-DERIVED model: points (+-inf as +-2^1024) and the two moment lists
        gcases.append((0, [c['boundary'], c['mb'], fa, fb, [(F(_c15_gen.INF) * p[0] if p[0] != 0 else qq(p[1])) for p in pts],
                           [m_[0] for m_ in r['moments']], [m_[1] for m_ in r['moments']]])); gidx.append(i)
        finite = all(p[0] == 0 for p in pts)
        if fam == 'Uniform' and finite:
            mcases.append((1, [c['boundary'], F(c['a']), F(c['b']), [qq(p[1]) for p in pts]])); midx.append((i, 'closed', None))
        if fam == 'Triangle' and finite:
            mcases.append((2, [c['boundary'], F(c['a']), F(c['distr'][1]), F(c['b']), [qq(p[1]) for p in pts]])); midx.append((i, 'closed', None))
    mres = run_model(15, mcases)
    gres = _c15_gen.run_gen(gcases)
    genw = dict(zip(gidx, gres)) if gres is not None else {}
    if gres is None:
        chk.count('%s:generated-model driver missing (not compared)' % tag)
    by = {}
    for (i, what, rec), mr in zip(midx, mres):
        if what == 'mid':
            want = None if mr == [0] else mr[1]
            got = rec['mid']
            ok = (want is None and got is None) or (want is not None and got is not None and ext_close(want, got))
            if not ok:
                c = cases[i]
                chk.violation('corr:C15/mid', 'mid-differs', dict(family=c['distr'][0]),
                              dict(kind='mid', distr=c['distr'], a=ext_float(rec['a']), b=ext_float(rec['b'])) if origin is None else slim(c),
                              dict(impl=str(got), model=str(want), record=str(rec)[:300]), failing_input=False)
        else:
            by.setdefault(i, {})[what] = mr
    maxdev = chk.extra.setdefault('max_rel_deviation_first_moment_vs_closed_form', {})
    for i, c in enumerate(cases):
        if i not in by:
            continue
        st, r = impl[i]
        fam = c['distr'][0]
        sig0 = dict(family=fam, boundary=int(c['boundary']), mb=int(c['mb']), infinite=int(math.isinf(c['a']) or math.isinf(c['b'])),
                    far_from_origin=int(magnitude_class(c['a'], c['b'], c['distr']).startswith('far from origin')))
        pts = r['pts']; n = len(pts)
        mw = by[i]['w']
        chk.traces += 1
        bad = []
        if i in genw:
            # source-derived model vs hand model: same exact inputs, the results must be IDENTICAL (both None or the same rationals)
            chk.count('%s:source-derived compute_weights compared with the hand model' % tag)
            gw = genw[i]
            same = (gw == [0] and mw == [0]) or (isinstance(gw, list) and isinstance(mw, list) and len(gw) == 2 and len(mw) == 2 and gw[0] == 1 and mw[0] == 1
                                                  and [sx.q(x) for x in gw[1]] == [sx.q(x) for x in mw[1]])
            if not same:
                chk.violation('corr:C15/generated-vs-hand-model', 'generated-model-differs', dict(sig0, n=size_class(n)), slim(c),
                              dict(generated=str(gw)[:300], hand_model=str(mw)[:300], points=[ext_float(p) for p in pts][:40],
                                   note='the source-derived model (coq/Gen/UQGridGen.v) and Model/UQ.wtrap disagree on this request: the source changed '
                                        'its meaning or the hand model does not follow the code'), failing_input=False)
        for obs in ('weights', 'static'):
            iw = r[obs]
            if iw[0] == 'skip':
                chk.count('%s:set_grid raised in another dimension (this dimension judged by the static call)' % tag)
                continue
            if iw[0] == 'exc':
                if mw != [0]:
                    bad.append((obs + ' raises', dict(impl=iw, model='accepts')))
                else:
                    chk.count('weights:rejected-by-both')
                continue
            wl = iw[1]
            if mw == [0] or sx.is_err(mw):
                # the model's "raise" cases: assert boundary or n > 3; negative weight beyond the clipping tolerance; zero inner sum
                bad.append((obs + ': model rejects', dict(impl=str(wl)[:200], model=str(mw))))
                continue
            mwl = [sx.q(x) for x in mw[1]]
            if obs == 'weights' and not c['boundary']:
                mwl = mwl[1:-1]                                  # set_grid strips the boundary entries
            tols = weight_tolerances(c, r, n, obs == 'weights' and not c['boundary'])
            if len(mwl) != len(wl) or not all(abs(x - y) <= t for x, y, t in zip(wl, mwl, tols)):
                j = next((j for j, (x, y, t) in enumerate(zip(wl, mwl, tols)) if abs(x - y) > t), None)
                bad.append((obs, dict(index=j, impl=str(wl[j]) if j is not None else len(wl), model=str(mwl[j]) if j is not None else len(mwl),
                                      tol=float(tols[j]) if j is not None else None)))
        # closed-form instances: the implementation's moments against the exact ones
        if 'closed' in by[i]:
            cw, cm = by[i]['closed']
            for j, ((m0, m1), (e0, e1)) in enumerate(zip(r['moments'], cm)):
                e0, e1 = sx.q(e0), sx.q(e1)
                if abs(m0 - e0) > F(1, 10 ** 12):
                    bad.append(('zeroth moment vs closed form', dict(interval=j, impl=float(m0), exact=float(e0))))
                    break
                # scale of the integrand x*pdf(x) on the interval: m0 * max|x| (an interval that straddles 0 has a first moment
                # near 0 by cancellation; the one-pass Gauss-Kronrod error of the implementation does not shrink with it)
                sc = abs(e0) * max(abs(qq(pts[j][1])), abs(qq(pts[j + 1][1])))
                dev = abs(m1 - e1) / sc if sc != 0 else abs(m1 - e1)
                maxdev[fam] = max(maxdev.get(fam, 0.0), float(dev))
                if abs(m1 - e1) > F(1, 100) * sc + F(1, 10 ** 12):
                    bad.append(('first moment vs closed form', dict(interval=j, impl=float(m1), exact=float(e1))))
                    break
        if fam == 'Normal' and r.get('normal_ref'):
            # the implementation's moments against the closed form of the normal distribution (finite intervals; harness arithmetic)
            sg = F(c['distr'][2])
            for j, ((m0, m1), (e0, e1)) in enumerate(zip(r['moments'], r['normal_ref'])):
                if abs(m0 - e0) > F(1, 10 ** 12):
                    bad.append(('zeroth moment vs closed form', dict(interval=j, impl=float(m0), exact=float(e0))))
                    break
                if e1 is not None:
                    sc = max(abs(qq(pts[j][1])), abs(qq(pts[j + 1][1])), sg)
                    # an interval much wider than sigma (point lists copied from a differently scaled dimension): the one-pass
                    # Gauss-Kronrod rule of the implementation cannot see the density between its nodes - not compared
                    if qq(pts[j + 1][1]) - qq(pts[j][1]) > 20 * sg:
                        chk.count('%s:normal first moment on an interval > 20 sigma (unresolved by the one-pass quadrature, not compared)' % tag)
                        continue
                    dev = abs(m1 - e1) / (abs(m0) * sc) if m0 != 0 else F(0)
                    maxdev['Normal (finite intervals, relative to m0*max|x|)'] = max(maxdev.get('Normal (finite intervals, relative to m0*max|x|)', 0.0), float(dev))
                    if abs(m1 - e1) > F(1, 10 ** 6) * abs(m0) * sc + F(1, 10 ** 13):
                        bad.append(('first moment vs closed form', dict(interval=j, impl=float(m1), exact=float(e1))))
                        break
        orc = oracle_weights(c, r)
        if orc:
            ca_, cb_ = r['cdf_ab']
            sig0 = dict(sig0, support_covered=int(abs(cb_ - ca_ - 1) <= F(1, 10 ** 12)))
            if orc[0] == 'exception':
                sig0['negative_weight_assert'] = int('calculated negative weight' in orc[1])
            chk.violation('oracle:weights/' + orc[0], 'weights-' + orc[0], sig0, slim(c), dict(property_predicate=orc[1], points=[ext_float(p) for p in pts][:70],
                                                                                             correspondence=[b_[0] for b_ in bad][:4]))
        elif bad:
            chk.violation('corr:C15/weights', 'weights-differ', dict(sig0, observable=bad[0][0]), slim(c),
                          dict(differs=[dict(observable=o, **dt) for o, dt in bad][:4], points=[ext_float(p) for p in pts][:70],
                               property_predicate='holds on this case'), failing_input=False)
        hyp = hypothesis_check(r, n)
        if hyp:
            chk.count('hypothesis-spot-check:' + hyp)
        if n >= 3:
            keys.append(('w', str(c['distr']), c['boundary'], c['mb'], str(pts)))
        if len(samples) < 3 and n >= 6 and r['weights'][0] == 'ok' and (fam != 'Uniform' or len(samples) == 0):
            samples.append(dict(kind='weights', distribution=c['distr'], boundary=c['boundary'], points=[ext_float(p) for p in pts],
                                impl_weights=[float(x) for x in r['weights'][1]]))


def size_class(n):
    return str(n) if n <= 4 else ('5-24' if n < 25 else ('25-64' if n <= 64 else ('65-256' if n <= 256 else '>256')))


def ext_close(want, got):
    if want[0] != 0 or got[0] != 0:
        return want[0] == got[0]
    x, y = qq(want[1]), qq(got[1])
    return abs(x - y) <= F(1, 2 ** 48) * max(abs(x), abs(y), F(1, 2 ** 20))


def weight_tolerances(c, r, n, stripped):
    """Rounding bound of w = (m1 - m0*x1)/(x2-x1) evaluated in binary64: 2^-40 times the cancellation in the numerator
    (|m1| + |m0 x1|)/(x2-x1) + |m0| of the two adjacent intervals; the renormalisation without boundary points multiplies the
    bound by (1/sum)^2 and adds the bound of the sum."""
    if c['mb']:
        return [T40 * 4] * (n - 2 if stripped else n)
    pts = r['pts']
    t = [F(0)] * n
    for j in range(n - 1):
        m0, m1 = r['moments'][j]
        if pts[j][0] == 0 and pts[j + 1][0] == 0:
            x1, x2 = qq(pts[j][1]), qq(pts[j + 1][1])
            s = (abs(m1) + abs(m0 * x1)) / (x2 - x1) + abs(m0) if x2 != x1 else abs(m0)
        else:
            s = abs(m0)
        t[j] += s; t[j + 1] += s
    tol = [T40 * (x + F(1, 2 ** 30)) for x in t]
    if not c['boundary'] and n > 3 and r['static'][0] == 'ok':
        f = max(F(1), 1 / max(sum(r['static'][1][1:-1]), F(1, 2 ** 20)))
        ssum = sum(tol)
        tol = [(x + ssum) * f * f for x in tol]
    return tol[1:-1] if stripped else tol


def oracle_mid(rec):
    a, b = ext_float(rec['a']), ext_float(rec['b'])
    if rec['mid'] is None:
        return ('inside', 'weighted midpoint is NaN')
    m = ext_float(rec['mid'])
    if not (a < m < b):
        return ('inside', 'weighted midpoint %r does not lie strictly inside (%r, %r)' % (m, a, b))
    if not rec['is_float']:
        return ('type', 'weighted midpoint is not a float')
    ca, cb, cm = rec['cdf_a'], rec['cdf_b'], rec['cdf_mid']
    total = cb - ca
    ppf_ok = rec['mid0'] is not None and a < ext_float(rec['mid0']) < b        # the distribution's ppf delivers a point inside
    if total > F(1, 10 ** 12) and ppf_ok:
        # equal probability (only meaningful when the interval carries probability the cdf can resolve)
        # the midpoint is a float: moving it by one ulp changes the probabilities by density * ulp(m) (density ~ total / (b - a))
        fin = [abs(x) for x in (a, b, m) if not math.isinf(x)]
        width = (b - a) if not (math.isinf(a) or math.isinf(b)) else (abs(m - (b if math.isinf(a) else a)) if not (math.isinf(a) and math.isinf(b)) else math.inf)
        grid_term = F(0) if math.isinf(width) or width == 0 else 16 * total * sx.rat(max(fin) * 2.0 ** -52 / width)
        if abs((cm - ca) - (cb - cm)) > F(1, 10 ** 8) * total + F(1, 10 ** 15) + grid_term:
            return ('equal-probability', 'P(left) = %.6g, P(right) = %.6g' % (float(cm - ca), float(cb - cm)))
    return None


def oracle_weights(c, r):
    """Property predicate on the implementation's weights alone."""
    if r['weights'][0] == 'skip':
        return None
    if r['weights'][0] == 'exc':
        n = len(r['pts'])
        if c['boundary'] or n > 3 or n in (1, 3):
            return ('exception', 'set_grid raises %s on a valid grid' % (r['weights'][1:],))
        return None
    w = r['weights'][1]
    pts = r['pts']; n = len(pts)
    inner = pts if c['boundary'] else pts[1:-1]
    if len(w) != len(inner) or r['weights'][2] != inner:
        return ('alignment', '%d weights for %d points' % (len(w), len(inner)))
    if r.get('fresh') is not None:
        # the weights of a dimension depend on that dimension's distribution, points and the boundary flag only: a fresh one-dimensional
        # grid object of the same distribution must produce the same numbers (same floating point operations)
        fr = r['fresh']
        if fr[0] == 'ok' and (len(fr[1]) != len(w) or any(abs(x - y) > F(1, 10 ** 13) * (1 + abs(y)) for x, y in zip(w, fr[1]))):
            j = next((j for j, (x, y) in enumerate(zip(w, fr[1])) if abs(x - y) > F(1, 10 ** 13) * (1 + abs(y))), None)
            return ('dimension', 'weights of dimension %s in the history differ from those of a fresh one-dimensional grid of the same distribution on '
                    'the same points (index %s: %s vs %s)' % (r.get('dim'), j, float(w[j]) if j is not None else len(w),
                                                              float(fr[1][j]) if j is not None else len(fr[1])))
    if not c['mb'] and any(x < 0 for x in w):
        return ('nonneg', 'negative weight %.3g' % float(min(w)))
    s = sum(w)
    ca, cb = r['cdf_ab']
    want = F(1)        # the property: a probability measure (with boundary points the code yields cdf(b) - cdf(a))
    # conditioning of w = (m1 - m0 x1)/(x2 - x1) with moments of absolute accuracy ~1e-16
    fin = [qq(p[1]) for p in pts if p[0] == 0]
    minw = min([y - x for x, y in zip(fin, fin[1:])] or [F(1)])
    cond = F(1, 10 ** 15) * max([abs(x) for x in fin] + [F(1)]) / max(minw, F(1, 10 ** 30))
    if n > 1 and abs(s - want) > F(1, 10 ** 11) + n * cond:
        return ('sum', 'weights sum to %.15g, expected %.15g' % (float(s), float(want)))
    if c['distr'][0] == 'Uniform' and r.get('trap') is not None and n > 1:
        t = r['trap']
        L = F(c['b']) - F(c['a'])
        if c['boundary']:
            ref = [x / L for x in t]
        else:
            ti = t[1:-1]
            ref = [x / sum(ti) for x in ti] if sum(ti) != 0 else None
        f = 1 if c['boundary'] else max(F(1), 1 / sum(t[1:-1]) * L if sum(t[1:-1]) != 0 else F(1))
        if ref is not None and (len(ref) != len(w) or any(abs(x - y) > (F(1, 10 ** 12) + 4 * n * cond) * f * f for x, y in zip(w, ref))):
            return ('uniform', 'weights differ from the unweighted trapezoidal weights / %s' % ('(b-a)' if c['boundary'] else 'their sum'))
    return None


def hypothesis_check(r, n):
    pts = r['pts']
    tot = F(0)
    for j in range(n - 1):
        m0, m1 = r['moments'][j]
        tot += m0
        if m0 < 0:
            return 'm0<0'
        if pts[j][0] == 0 and pts[j + 1][0] == 0:
            x1, x2 = qq(pts[j][1]), qq(pts[j + 1][1])
            slack = F(1, 10 ** 6) * (abs(m1) + abs(m0 * x1) + abs(m0 * x2)) + F(1, 10 ** 14)
            if m1 < x1 * m0 - slack or m1 > x2 * m0 + slack:
                return 'm1-outside-[x1*m0,x2*m0]'
    ca, cb = r['cdf_ab']
    if n > 1 and abs(tot - (cb - ca)) > F(1, 10 ** 12):
        return 'sum-m0'
    return None


# ----------------------------------------------------------------------------------------------- part C: histories on grid objects
FIN_DOMAINS = [(0.0, 1.0), (-1.0, 3.0), (2.0, 2.5), (-3.0, 6.0)]
# magnitudes (lesson d): far from the origin, tiny, huge; (1e6, 1e6+1) is where the triangle first moment of the unchanged code breaks down
MAG_DOMAINS = [(1024.0, 1026.0), (0.0, 2.0 ** -20), (-2.0 ** 20, 2.0 ** 20), (1000000.0, 1000001.0)]
MAG_NORMALS = [(0.0, 2.0 ** -20), (0.0, 2.0 ** 20), (1000000.0, 1.0), (1024.0, 2.0 ** -10)]


def pick_domain(rng):
    return rng.choice(MAG_DOMAINS) if rng.random() < 0.2 else rng.choice(FIN_DOMAINS)


def magnitude_class(a, b, distr=None):
    """Position of the distribution relative to its own scale S (lesson d): S = sigma for the normal distribution, b - a otherwise;
    M = |mu| resp. max(|a|, |b|)."""
    if distr is not None and distr[0] == 'Normal':
        S, m = abs(float(distr[2])), abs(float(distr[1]))
    elif math.isinf(a) or math.isinf(b):
        return 'infinite'
    else:
        S, m = b - a, max(abs(a), abs(b))
    return 'far from origin (M/S >= 1e5)' if m >= 1e5 * S else ('far (M/S >= 100)' if m >= 100 * S else
                                                             ('tiny (S <= 1e-5)' if S <= 1e-5 else ('huge (S >= 1e5)' if S >= 1e5 else 'O(1)')))


NORMALS = [(0.2, 1.0), (0.0, 2.0), (-3.0, 0.5), (0.0, 1.0), (0.5, 2.0)]


def gen_family_on(rng, a, b):
    if math.isinf(a) or math.isinf(b):
        r = rng.random()
        if r < 0.15:
            return ['Normal'] + list(rng.choice(MAG_NORMALS))
        if r < 0.25:
            return ['Normal'] + [int(x) for x in rng.choice([(0, 1), (-3, 2), (1, 1)])]          # int-valued parameters
        return ['Normal'] + list(rng.choice(NORMALS))
    r = rng.random()
    if r < 0.35:
        return ['Uniform']
    if r < 0.8:
        return ['Triangle', a + (b - a) * rng.choice([0.5, 0.5, 0.25, 0.75, 0.3, 0.0, 0.125, 0.9])]
    return ['Normal', a + (b - a) * rng.choice([0.5, 0.25, 1.0]), (b - a) * rng.choice([0.25, 0.5, 2.0])]      # not truncated by the code


def gen_recipe(rng, finite, small):
    r = rng.random()
    if finite and r < 0.3:
        return ['dyadic', rng.choice([1, 2, 2, 3, 3, 4] if small else [1, 2, 3, 4, 5, 6])]
    n = rng.choice([3, 4, 5, 6, 7, 9]) if small or rng.random() < 0.6 else rng.randrange(10, 41)
    if not small and rng.random() < 0.04:
        n = rng.choice([201, 257, 515, 1025])                       # beyond block sizes / thresholds (lesson h)
    return ['own', rng.choice(['uniform', 'uniform', 'left', 'right', 'ends', 'random']), n, [round(rng.random(), 6) for _ in range(n - 2)]]


def gen_grid_case(rng):
    """A short history on one UncertaintyQuantification operation and one or two GlobalTrapezoidalGridWeighted objects built from it:
    2-4 set_grid requests; dimensions with different distributions on one domain receive the same 1D point list (copied from another
    dimension of the same request or from an earlier request), requests are repeated, the second grid object (other boundary flag) shares
    the distribution objects and their moment caches."""
    dim = rng.choice([1, 2, 2, 2, 3, 3])
    if rng.random() < 0.75:
        dom = (-math.inf, math.inf) if rng.random() < 0.3 else pick_domain(rng)
        doms = [dom] * dim
    else:
        doms = [((-math.inf, math.inf) if rng.random() < 0.3 else pick_domain(rng)) for _ in range(dim)]
    distrs = []
    for d in range(dim):
        same = [e for e in range(d) if doms[e] == doms[d]]
        if same and rng.random() < 0.25:
            distrs.append(list(distrs[rng.choice(same)]))              # equal description and domain: ONE shared distribution object
        else:
            distrs.append(gen_family_on(rng, *doms[d]))
    all_uniform = all(x[0] == 'Uniform' for x in distrs)
    form = 'tuples'
    if all_uniform and rng.random() < 0.5:
        form = 'string'                                                # distributions='Uniform' for every dimension
    elif any(len(x) == 1 for x in distrs) and rng.random() < 0.4:
        form = 'mixed'                                                 # parameterless entries as bare strings
    grids = []
    for _ in range(rng.choice([1, 1, 2])):
        bd = rng.random() < 0.5
        grids.append(dict(boundary=bd, mb=bool(all_uniform and not bd and rng.random() < 0.4), ctor=rng.choice(['kw', 'pos', 'default'])))
    finite = [not (math.isinf(lo) or math.isinf(hi)) for lo, hi in doms]
    steps = []
    for k in range(rng.choice([2, 3, 3, 4])):
        if steps and rng.random() < 0.15:
            steps.append(dict(g=rng.randrange(len(grids)), dims=[['prev', rng.randrange(len(steps)), d] for d in range(dim)]))   # repeated request
            continue
        small = dim == 3
        recs = []
        for d in range(dim):
            same = [e for e in range(d) if doms[e] == doms[d]]
            r = rng.random()
            if same and r < 0.5:
                recs.append(['copy', rng.choice(same)])
            elif steps and r < 0.7:
                e = rng.choice([e for e in range(dim) if doms[e] == doms[d]])
                recs.append(['prev', rng.randrange(len(steps)), e])
            elif steps and r < 0.85:
                # another tree with as many points as an earlier request had in this dimension
                sizes = [x['dims'][d][2] if x['dims'][d][0] == 'own' else 2 ** x['dims'][d][1] + 1 for x in steps if x['dims'][d][0] in ('own', 'dyadic')]
                n = rng.choice(sizes) if sizes else 5
                recs.append(['own', rng.choice(['left', 'right', 'ends', 'random']), n, [round(rng.random(), 6) for _ in range(n - 2)]])
            else:
                recs.append(gen_recipe(rng, finite[d], small))
        steps.append(dict(g=rng.randrange(len(grids)), dims=recs))
    for st in steps:
        # how the request is handed over (lessons a, b, i): container type, the SAME list objects as in other dimensions / earlier
        # requests ('shared'), level lists that are true tree levels / all zero / arbitrary (non-contiguous, unsorted, large)
        st['ptype'] = rng.choice(['list', 'shared', 'shared', 'tuple', 'array'])
        st['levels'] = rng.choice(['tree', 'tree', 'zeros', 'odd'])
    return dict(kind='grid', distrs=distrs, a=[lo for lo, _ in doms], b=[hi for _, hi in doms], form=form, grids=grids, steps=steps,
                ab=rng.choice(['array', 'array', 'list', 'int' if all(float(x).is_integer() and abs(x) < 2 ** 31 for x in
                                                                 [v for d_ in doms for v in d_ if not math.isinf(v)]) and not any(math.isinf(v) for d_ in doms for v in d_) else 'list']))


def _level_dyadic(i, k):
    if i == 0 or i == 2 ** k:
        return 0
    lv = k
    while i % 2 == 0:
        i //= 2
        lv -= 1
    return lv


def _snap(x):
    """Deep snapshot of an argument object (nested lists / tuples / ndarrays) for the argument-immutability comparison."""
    import numpy as np
    if isinstance(x, np.ndarray):
        return ('nd', str(x.dtype), x.shape, x.tolist())
    if isinstance(x, (list, tuple)):
        return (type(x).__name__, [_snap(y) for y in x])
    return (type(x).__name__, x)                     # 1 and 1.0 are different arguments


SENTINEL = 1e300


def impl_grid(case):
    import numpy as np
    import warnings
    warnings.filterwarnings('ignore')
    from sparseSpACE.Grid import GlobalTrapezoidalGridWeighted, GlobalTrapezoidalGrid
    from sparseSpACE.GridOperation import UncertaintyQuantification
    from sparseSpACE.Function import FunctionLinear
    dim = len(case['a'])
    a = np.array(case['a'], dtype=float); b = np.array(case['b'], dtype=float)
    # the objects handed to the library (lesson b: the SAME a, b objects go to the operation and to every grid object)
    abf = case.get('ab', 'array')
    if abf == 'list':
        a_arg, b_arg = [float(x) for x in a], [float(x) for x in b]
    elif abf == 'int':
        a_arg, b_arg = np.array([int(x) for x in a]), np.array([int(x) for x in b])
    else:
        a_arg, b_arg = np.array(a), np.array(b)
    tup = [tuple(x) for x in case['distrs']]
    if case.get('form') == 'string':
        darg = tup[0][0]
    elif case.get('form') == 'mixed':
        darg = [t[0] if len(t) == 1 else t for t in tup]
    else:
        darg = list(tup)
    out = dict(steps=[], arg_mut=[])
    snap_d, snap_a, snap_b = _snap(darg), _snap(a_arg), _snap(b_arg)
    try:
        op = UncertaintyQuantification(FunctionLinear([1.0] * dim), darg, a_arg, b_arg)
        if _snap(darg) != snap_d:
            after = _snap(darg)
            only_strings = (isinstance(darg, list) and after[0] == 'list' and len(after[1]) == len(snap_d[1])
                            and all(x == y or (x[0] == 'str' and y == ('tuple', [x])) for x, y in zip(snap_d[1], after[1])))
            out['arg_mut'].append(dict(argument='distributions', call='UncertaintyQuantification.__init__', before=str(snap_d)[:200], after=str(after)[:200],
                                       rewrite='string entries -> 1-tuples' if only_strings else 'other'))
        grids = [make_grid(a_arg, b_arg, op, g['boundary'], g['mb'], g.get('ctor', 'kw')) for g in case['grids']]
        dobjs = op.get_distributions()
        out['shared_objects'] = [[int(dobjs[i] is dobjs[j]) for j in range(dim)] for i in range(dim)]
        # fresh, independent one-dimensional references (their own operation, distribution object and caches); they stay alive and are
        # used interleaved with the history (lesson g: several instances in one process)
        fops = [UncertaintyQuantification(FunctionLinear([1.0]), [tup[d]], a[d:d + 1], b[d:d + 1]) for d in range(dim)]
    except Exception as e_:
        out['setup'] = _exc(e_)
        return out
    resolved = []
    for k, st in enumerate(case['steps']):
        g = grids[st['g']]
        bd, mb = case['grids'][st['g']]['boundary'], case['grids'][st['g']]['mb']
        ptype = st.get('ptype', 'list')
        rec = dict(g=st['g'], dims=[], mids=[], arg_mut=[], aliasing=[], observers=[])
        pts, levs = [], []
        try:
            for d, rp in enumerate(st['dims']):
                if rp[0] == 'own':
                    p, l = build_tree(g, dobjs[d], d, float(a[d]), float(b[d]), rp[2], rp[1], rp[3], rec['mids'], cap=4)
                elif rp[0] == 'dyadic':
                    kk = rp[1]
                    p = [float(a[d] + (b[d] - a[d]) * i / 2 ** kk) for i in range(2 ** kk + 1)]
                    l = [_level_dyadic(i, kk) for i in range(2 ** kk + 1)]
                elif rp[0] == 'copy':
                    # 'shared': the very same list object in two dimensions
                    p, l = (pts[rp[1]], levs[rp[1]]) if ptype == 'shared' else (list(pts[rp[1]]), list(levs[rp[1]]))
                elif rp[0] == 'prev':
                    # 'shared': the very same list object that an earlier request handed over
                    p, l = resolved[rp[1]][0][rp[2]], resolved[rp[1]][1][rp[2]]
                    if ptype != 'shared':
                        p, l = list(p), list(l)
                else:                                           # ['list', points, levels]
                    p, l = [float(x) for x in rp[1]], list(rp[2])
                pts.append(p); levs.append(l)
            if st.get('levels') == 'zeros':
                levs = [[0] * len(p) for p in pts]
            elif st.get('levels') == 'odd':
                levs = [[(7 * i + 3 * d) % 5 * 100 + (13 if i % 2 else 2) for i in range(len(p))] for d, p in enumerate(pts)]
            # one midpoint query per dimension on an interval of ANOTHER dimension's point list where the domains agree (a cache of
            # midpoints keyed by the interval alone would answer with the other distribution's midpoint)
            for d in range(dim):
                for e in range(dim):
                    if e != d and (a[e], b[e]) == (a[d], b[d]) and len(pts[e]) >= 2 and len(rec['mids']) < 12:
                        j = (k + d) % (len(pts[e]) - 1)
                        lo_, hi_ = pts[e][j], pts[e][j + 1]
                        if (math.isinf(lo_) or math.isinf(hi_)) and max([abs(x) for x in (lo_, hi_) if not math.isinf(x)] + [0.0]) >= 64:
                            continue                  # the fallback a + 1e-14 is not representable there (excluded axis value)
                        build_tree(g, dobjs[d], d, pts[e][j], pts[e][j + 1], 3, 'random', [0.0], rec['mids'])
        except Exception as e_:
            rec['resolve'] = _exc(e_)
            out['steps'].append(rec)
            break
        resolved.append((pts, levs))
        rec['pts'] = [[ext(float(x)) for x in p] for p in pts]
        rec['levels'] = [list(l) for l in levs]
        # the argument objects of this request
        if ptype == 'tuple':
            parg, larg = tuple(tuple(p) for p in pts), tuple(tuple(l) for l in levs)
        elif ptype == 'array':
            parg, larg = [np.array(p, dtype=float) for p in pts], [np.array(l) for l in levs]
            for d, rp in enumerate(st['dims']):
                if rp[0] == 'copy':
                    parg[d] = parg[rp[1]][:]                       # a view of the other dimension's array (one parent buffer)
        elif ptype == 'shared':
            parg, larg = pts, levs
        else:
            parg, larg = [list(p) for p in pts], [list(l) for l in levs]
        snap_p, snap_l = _snap(parg), _snap(larg)
        set_exc = None
        try:
            g.set_grid(parg, larg)
            W = [('ok', [sx.rat(float(w)) for w in g.weights[d]], [ext(float(x)) for x in g.coordinate_array[d]]) for d in range(dim)]
            rec['numPoints'] = [int(x) for x in g.numPoints]
        except Exception as e_:
            set_exc = _exc(e_)
            W = [set_exc] * dim
        if _snap(parg) != snap_p:
            rec['arg_mut'].append(dict(argument='grid_points', call='set_grid'))
        if _snap(larg) != snap_l:
            rec['arg_mut'].append(dict(argument='grid_levels', call='set_grid'))
        statics = []
        for d in range(dim):
            dd = dict()
            try:
                sarg = list(pts[d])
                ssnap = _snap(sarg)
                w = GlobalTrapezoidalGridWeighted.compute_weights(sarg, a[d], b[d], dobjs[d], bd, mb)
                dd['static'] = ('ok', [sx.rat(float(x)) for x in w])
                if _snap(sarg) != ssnap:
                    rec['arg_mut'].append(dict(argument='grid_1D', call='compute_weights'))
                # lesson c: overwrite what the call returned; a second call must not see the sentinel
                try:
                    for i_ in range(len(w)):
                        w[i_] = SENTINEL
                    w2 = GlobalTrapezoidalGridWeighted.compute_weights(list(pts[d]), a[d], b[d], dobjs[d], bd, mb)
                    if [sx.rat(float(x)) for x in w2] != dd['static'][1]:
                        rec['aliasing'].append(dict(getter='compute_weights', dim=d))
                except TypeError:
                    pass
            except Exception as e_:
                dd['static'] = _exc(e_)
            statics.append(dd['static'])
            try:
                dd['moments'] = [(sx.rat(_f(dobjs[d].get_zeroth_moment(pts[d][i], pts[d][i + 1]))),
                                  sx.rat(_f(dobjs[d].get_first_moment(pts[d][i], pts[d][i + 1])))) for i in range(len(pts[d]) - 1)]
            except Exception as e_:
                dd['moments'] = _exc(e_)
            dd['cdf_ab'] = (sx.rat(_f(dobjs[d].cdf(a[d]))), sx.rat(_f(dobjs[d].cdf(b[d]))))
            try:
                fg = GlobalTrapezoidalGridWeighted(a[d:d + 1], b[d:d + 1], fops[d], boundary=bd, modified_basis=mb)
                fg.set_grid([list(pts[d])], [list(levs[d])])
                dd['fresh'] = ('ok', [sx.rat(float(w)) for w in fg.weights[0]])
            except Exception as e_:
                dd['fresh'] = _exc(e_)
            if tup[d][0] == 'Uniform':
                try:
                    dd['trap'] = [sx.rat(float(x)) for x in GlobalTrapezoidalGrid.compute_weights(list(pts[d]), a[d], b[d], mb)]
                except Exception:
                    dd['trap'] = None
            if tup[d][0] == 'Normal':
                dd['normal_ref'] = normal_reference_moments(tup[d], [float(x) for x in pts[d]])
            rec['dims'].append(dd)
        # set_grid of a d-dimensional grid raises as a whole: the exception belongs to the dimensions whose own compute_weights raises;
        # when no dimension raises on its own, it stays with every dimension
        culprits = [d for d in range(dim) if statics[d][0] == 'exc']
        for d in range(dim):
            rec['dims'][d]['weights'] = W[d] if (set_exc is None or not culprits or d in culprits) else ('skip',)
        # the tensor product: get_weights / getWeight / getPoints, observers on the live object (lessons c, e)
        if set_exc is None:
            try:
                npts = 1
                for d in range(dim):
                    npts *= len(W[d][1])
                rec['npoints'] = npts
                if npts <= 4000:
                    tw = g.get_weights()
                    rec['tensor'] = [sx.rat(float(x)) for x in tw]
                    gp = g.getPoints()
                    rec['n_getPoints'] = len(gp)
                    if npts > 0:
                        idx = [(7 * k + 3 * d + 1) % len(W[d][1]) for d in range(dim)]
                        rec['getWeight'] = (idx, sx.rat(float(g.getWeight(idx))))
                        g.getCoordinate(idx); g.get_coordinates(); g.get_num_points()
                    # overwrite what the getters returned
                    if isinstance(tw, np.ndarray) and tw.size:
                        tw[:] = SENTINEL
                    if isinstance(gp, list) and gp:
                        gp[:] = [SENTINEL] * len(gp)
                    if [sx.rat(float(x)) for x in g.get_weights()] != rec['tensor']:
                        rec['aliasing'].append(dict(getter='get_weights'))
                    if len(g.getPoints()) != rec['n_getPoints'] or (gp and g.getPoints()[0] == SENTINEL):
                        rec['aliasing'].append(dict(getter='getPoints'))
                # the stored state is as set_grid left it
                W2 = [('ok', [sx.rat(float(w)) for w in g.weights[d]], [ext(float(x)) for x in g.coordinate_array[d]]) for d in range(dim)]
                if W2 != W:
                    rec['observers'].append('weights / coordinates of the grid object changed by get_weights / getPoints / getWeight / get_mid_point')
            except Exception as e_:
                rec['tensor_exc'] = _exc(e_)
            # lesson c: the arrays set_grid left in .weights are results in the caller's hands - overwrite them; the next request
            # (often the same points again) must not see the sentinel
            try:
                for d in range(dim):
                    wd = g.weights[d]
                    for i_ in range(len(wd)):
                        wd[i_] = SENTINEL
            except (TypeError, ValueError):
                pass
        if _snap(a_arg) != snap_a or _snap(b_arg) != snap_b:
            rec['arg_mut'].append(dict(argument='a' if _snap(a_arg) != snap_a else 'b', call='constructor / set_grid'))
        if _snap(darg) != snap_d and not out['arg_mut']:
            rec['arg_mut'].append(dict(argument='distributions', call='set_grid'))
        out['steps'].append(rec)
    # lesson c for the getter of the distribution objects: overwrite the returned list, ask again
    try:
        lst = op.get_distributions()
        keep = list(lst)
        for i_ in range(len(lst)):
            lst[i_] = SENTINEL
        again = op.get_distributions()
        if any(x is SENTINEL or x == SENTINEL for x in again):
            out['aliasing'] = [dict(getter='get_distributions')]
            for i_ in range(len(again)):
                again[i_] = keep[i_]
    except Exception as e_:
        out['aliasing_exc'] = _exc(e_)
    return out


def propagate_bounds(ws, tols):
    """Bound of |prod_d (w_d + delta_d) - prod_d w_d| for |delta_d| <= tol_d, in the order of the tensor product (floats)."""
    bound, absw = [0.0], [1.0]
    for w, t in zip(ws, tols):
        nb, na = [], []
        for bx, ax in zip(bound, absw):
            for wv, tv in zip(w, t):
                nb.append(bx * (abs(wv) + tv) + ax * tv); na.append(ax * abs(wv))
        bound, absw = nb, na
    return bound


def check_grids(chk, cases, impl, keys, samples):
    pc, pi, org = [], [], []
    tens = []
    for i, c in enumerate(cases):
        st, r = impl[i]
        dim = len(c['a'])
        same_dom = len(set(zip(c['a'], c['b']))) < dim
        ndist = len(set(map(str, c['distrs'])))
        chk.count('grid:d=%d %s' % (dim, 'one distribution' if ndist == 1 else ('different distributions on a shared domain' if same_dom else
                                                                                  'different distributions, different domains')))
        chk.count('grid:distributions given as %s' % c.get('form', 'tuples'))
        chk.count('grid:%d grid object(s) on one operation' % len(c['grids']))
        if st != 'ok' or 'setup' in r:
            chk.violation('corr:C15/grid', 'worker-failed', dict(status=st, dim=dim), c, dict(impl=str(r)[:400]))
            continue
        if any(r['shared_objects'][x][y] for x in range(dim) for y in range(x + 1, dim)):
            chk.count('grid:distribution object shared between dimensions')
        chk.count('grid:a, b handed over as %s' % c.get('ab', 'array'))
        chk.count('grid:argument snapshots compared (a, b, distributions, grid_points, grid_levels, grid_1D)')
        for m_ in r.get('arg_mut', []):
            chk.violation('oracle:argument-mutated', 'argument-mutated', dict(argument=m_['argument'], call=m_['call'], rewrite=m_.get('rewrite', '')), dict(c, steps=[]),
                          dict(property_predicate='the library modified an object it was given', **m_))
        for al in r.get('aliasing', []):
            chk.violation('oracle:result-aliases-internal-state', 'result-aliases-internal-state', dict(getter=al['getter']), dict(c, steps=[]),
                          dict(property_predicate='overwriting the object %s returned changes what the next call returns' % al['getter']))
        for k, rec in enumerate(r['steps']):
            hist = dict(c, steps=c['steps'][:k + 1])
            chk.count('grid:request container %s' % c['steps'][k].get('ptype', 'list'))
            chk.count('grid:request levels %s' % c['steps'][k].get('levels', 'tree'))
            for m_ in rec.get('arg_mut', []):
                chk.violation('oracle:argument-mutated', 'argument-mutated', dict(argument=m_['argument'], call=m_['call']), hist,
                              dict(property_predicate='the library modified an object it was given', **m_))
            for al in rec.get('aliasing', []):
                chk.violation('oracle:result-aliases-internal-state', 'result-aliases-internal-state', dict(getter=al['getter']), hist,
                              dict(property_predicate='overwriting the object %s returned changes what the next call returns' % al['getter']))
            for ob in rec.get('observers', []):
                chk.violation('oracle:observer-changes-state', 'observer-changes-state', dict(where='grid'), hist, dict(property_predicate=ob))
            if 'resolve' in rec:
                chk.violation('oracle:mid/exception', 'mid-exception', dict(dim=dim), hist, dict(impl=str(rec['resolve'])[:300]))
                break
            g = c['grids'][rec['g']]
            kinds = [x[0] for x in c['steps'][k]['dims']]
            collide = sum(1 for x in range(dim) for y in range(x + 1, dim) if rec['pts'][x] == rec['pts'][y] and c['distrs'][x] != c['distrs'][y])
            if collide:
                chk.count('grid:request with one point list in two differently distributed dimensions')
            if any(x == 'prev' for x in kinds):
                chk.count('grid:request re-uses a point list of an earlier request')
            if all(x[0] == 'prev' and x[1] == c['steps'][k]['dims'][0][1] and x[2] == d_ for d_, x in enumerate(c['steps'][k]['dims'])):
                chk.count('grid:repeated request')
            for d in range(dim):
                dd = rec['dims'][d]
                pcase = dict(kind='weights', distr=c['distrs'][d], a=c['a'][d], b=c['b'][d], boundary=g['boundary'], mb=g['mb'])
                pr = dict(dd, pts=rec['pts'][d], levels=rec['levels'][d], mids=[m for m in rec['mids'] if m['d'] == d], dim=d)
                pc.append(pcase); pi.append(('ok', pr)); org.append(dict(hist, focus=dict(step=k, dim=d)))
            if 'tensor' in rec or 'tensor_exc' in rec:
                tens.append((i, k, hist, rec, g))
    check_weights(chk, pc, pi, keys, samples, origin=lambda j: org[j], tag='grid-dim')
    # ---- tensor product: model sub 6 on the implementation's moments
    mcases = []
    for (i, k, hist, rec, g) in tens:
        c = cases[i]
        dims = []
        for d in range(len(c['a'])):
            dd = rec['dims'][d]
            pts = rec['pts'][d]
            mom = dd['moments']
            if isinstance(mom, tuple) and mom and mom[0] == 'exc':
                dims = None
                break
            fa = F(c['a'][d]) if not math.isinf(c['a'][d]) else F(0)
            fb = F(c['b'][d]) if not math.isinf(c['b'][d]) else F(0)
            dims.append([fa, fb, [[pts[j], pts[j + 1], mom[j][0], mom[j][1]] for j in range(len(pts) - 1)]])
        # the exact tensor product costs the extracted model ~0.1 ms per rational product: grids of up to 300 points go to the model
        mcases.append((6, [g['boundary'], g['mb'], dims if dims is not None and len(rec.get('tensor', ())) <= 300 else []]))
    mres = run_model(15, mcases)
    for (i, k, hist, rec, g), mr in zip(tens, mres):
        c = cases[i]
        dim = len(c['a'])
        chk.traces += 1
        sig = dict(dim=dim, boundary=int(g['boundary']))
        if 'tensor_exc' in rec:
            chk.violation('oracle:tensor/exception', 'tensor-exception', sig, hist, dict(impl=str(rec['tensor_exc'])))
            continue
        W1 = [rec['dims'][d]['weights'][1] for d in range(dim)]
        tw = rec['tensor']
        chk.count('grid:tensor weights %s points' % size_class(len(tw)))
        # oracle: get_weights is the product rule of the 1D weights (itertools.product order), getWeight(index) the product of the entries
        W1f = [[float(x) for x in w] for w in W1]
        twf = [float(x) for x in tw]
        ref = [1.0]
        for w in W1f:
            ref = [x * y for x in ref for y in w]                 # the same floating point products, last dimension fastest
        orc = None
        if len(twf) != len(ref) or rec.get('n_getPoints') != len(ref):
            orc = ('tensor-length', '%d weights, %s points for a grid of %d points' % (len(twf), rec.get('n_getPoints'), len(ref)))
        elif any(abs(x - y) > 1e-14 * abs(y) + 1e-300 for x, y in zip(twf, ref)):
            j = next(j for j, (x, y) in enumerate(zip(twf, ref)) if abs(x - y) > 1e-14 * abs(y) + 1e-300)
            orc = ('tensor-product', 'get_weights()[%d] = %.17g is not the product %.17g of the 1D weights' % (j, twf[j], ref[j]))
        elif 'getWeight' in rec:
            idx, gw = rec['getWeight']
            want = 1.0
            for d in range(dim):
                want *= W1f[d][idx[d]]
            if abs(float(gw) - want) > 1e-14 * abs(want):
                orc = ('getWeight', 'getWeight(%s) = %.17g, product of the 1D weights %.17g' % (idx, float(gw), want))
        if orc is None and ref:
            prod = 1.0
            for w in W1f:
                prod *= math.fsum(w)
            if abs(math.fsum(twf) - prod) > 1e-12 * (1 + abs(prod)):
                orc = ('tensor-sum', 'tensor weights sum to %.15g, product of the 1D sums %.15g' % (math.fsum(twf), prod))
            elif not g['mb'] and any(x < 0 for x in twf):
                orc = ('tensor-nonneg', 'negative tensor weight %.3g' % min(twf))
        if orc:
            chk.violation('oracle:tensor/' + orc[0], 'tensor-' + orc[0], sig, hist, dict(property_predicate=orc[1]))
            continue
        # correspondence with the model (1D weights from the moments, strip, tensor product)
        if len(twf) > 300:
            chk.count('grid:tensor beyond 300 points (oracle only)')
            continue
        if mr == [0] or sx.is_err(mr):
            if all(rec['dims'][d]['weights'][0] == 'ok' for d in range(dim)):
                # already reported per dimension by check_weights when the model rejects a request the implementation accepts
                chk.count('grid:tensor model rejects')
            continue
        mt = [float(sx.q(x)) for x in mr[2]]
        mw = [[float(sx.q(x)) for x in l] for l in mr[1]]
        # tolerance: the per-dimension bounds of the 1D weights propagated through the product
        tol1 = []
        for d in range(dim):
            dd = rec['dims'][d]
            pcase = dict(distr=c['distrs'][d], a=c['a'][d], b=c['b'][d], boundary=g['boundary'], mb=g['mb'])
            tol1.append([float(t) for t in weight_tolerances(pcase, dict(dd, pts=rec['pts'][d]), len(rec['pts'][d]), not g['boundary'])])
        bound = propagate_bounds(mw, tol1)
        if len(mt) != len(twf) or any(abs(x - y) > t + 1e-13 * abs(y) for x, y, t in zip(twf, mt, bound)):
            j = next((j for j, (x, y, t) in enumerate(zip(twf, mt, bound)) if abs(x - y) > t + 1e-13 * abs(y)), None)
            chk.violation('corr:C15/tensor', 'tensor-differs', sig, hist,
                          dict(index=j, impl=twf[j] if j is not None else len(twf), model=mt[j] if j is not None else len(mt),
                               property_predicate='holds on this case'), failing_input=False)
        if len(tw) >= 4:
            keys.append(('g', str(c['distrs']), g['boundary'], g['mb'], str(rec['pts'])))
        if len(samples) < 8 and dim >= 2 and 9 <= len(tw) <= 40 and not any(s_.get('kind') == 'grid' for s_ in samples):
            samples.append(dict(kind='grid', distributions=c['distrs'], boundary=g['boundary'], points=[[ext_float(p) for p in l] for l in rec['pts']],
                                impl_weights_1d=[[float(x) for x in w] for w in W1]))


# ----------------------------------------------------------------------------------------------- part B
def check_moments(chk, cases, impl, keys, samples):
    mcases, midx = [], []
    for i, c in enumerate(cases):
        st, r = impl[i]
        chk.count('moments:model=%s d=%d boundary=%d' % (c['model'], len(c['a']), c['boundary']))
        if st != 'ok':
            chk.violation('corr:C15/moments', 'worker-failed', dict(status=st), c, dict(impl=str(r)[:300]))
            continue
        if r[0] == 'exc':
            if r[2].startswith('Grid.py:11') or 'GridOperation.py:35' in r[2] or 'GridOperation.py:39' in r[2]:
                # raised inside the weighted quadrature / distribution code (e.g. 'calculated negative weight')
                chk.violation('oracle:moments/exception', 'moments-law', dict(clause='exception', boundary=int(c['boundary']),
                                                                            shared_distribution=shared_distribution(c), truncated_normal=0), c,
                              dict(property_predicate='the UQ run raises inside the weighted quadrature', exception=r[1:]))
            else:
                # the adaptive driver / error estimator is not C15's business: counted, not judged
                chk.count('moments:run-raised %s %s' % (r[1], r[2]))
            continue
        if r[0] == 'nan':
            chk.violation('oracle:moments/finite', 'moments-law', dict(clause='finite', boundary=int(c['boundary']), shared_distribution=shared_distribution(c),
                                                                     truncated_normal=0), c,
                          dict(property_predicate='expectation / variance / combined weights are NaN or infinite', result=str(r[1])[:300]))
            continue
        mcases.append((5, [r[1]['integral']])); midx.append(i)
    mres = run_model(15, mcases)
    for i, mr in zip(midx, mres):
        c = cases[i]; r = impl[i][1][1]
        chk.traces += 1
        sig0 = dict(boundary=int(c['boundary']), shared_distribution=shared_distribution(c),
                    truncated_normal=int(any(d[0] == 'Normal' and not math.isinf(lo) for d, lo in zip(c['distrs'], c['a']))))
        mE = [sx.q(x) for x in mr[0]]; mV = [sx.q(x) for x in mr[1]]
        integral = r['integral']
        k = len(integral) // 2
        bad = None
        if mE != r['E']:
            bad = ('expectation', dict(impl=[float(x) for x in r['E']], model=[float(x) for x in mE]))
        else:
            for j in range(k):
                tol = F(1, 2 ** 45) * (abs(integral[k + j]) + integral[j] ** 2)
                if abs(mV[j] - r['V'][j]) > tol:
                    bad = ('variance', dict(component=j, impl=float(r['V'][j]), model=float(mV[j])))
        if any(integral[k + j] - integral[j] ** 2 < -F(1, 10 ** 9) * (abs(integral[k + j]) + integral[j] ** 2) for j in range(k)):
            chk.count('moments:raw-variance-negative (mom2 < mom1^2)')
            chk.extra['raw_variance_negative_cases'] = chk.extra.get('raw_variance_negative_cases', 0) + 1
            if 'raw_negative_sample' not in chk.extra:
                chk.extra['raw_negative_sample'] = dict(case=c, mom1=[float(x) for x in integral[:k]], mom2=[float(x) for x in integral[k:]],
                                                        impl_variance=[float(x) for x in r['V']])
        orc = oracle_moments(c, r)
        if orc:
            chk.violation('oracle:moments/' + orc[0], 'moments-law', dict(sig0, clause=orc[0]), c, dict(property_predicate=orc[1], E=[float(x) for x in r['E']],
                                                                                         V=[float(x) for x in r['V']], wsum=float(r['wsum'])))
        elif bad:
            chk.violation('corr:C15/moments', 'moments-differ', dict(sig0, observable=bad[0]), c, dict(bad[1], property_predicate='holds'),
                          failing_input=False)
        if r['npoints'] >= 5:
            keys.append(('m', str(c['distrs']), c['boundary'], c['c'], c['e'], c['model'], c['maxev'], c['lmax']))
        if len(samples) < 5 and c['model'] != 'const' and r['npoints'] > 20:
            samples.append(dict(kind='moments', distributions=c['distrs'], c=c['c'], e=c['e'], E=[float(x) for x in r['E']],
                                Var=[float(x) for x in r['V']], points=r['npoints']))


def check_moment_paths(chk, cases, impl):
    """Part B, second half: the combined rule itself. Model sub 8: integral of the expectation-variance function over the combined nodes /
    weights, calculate_expectation_and_variance through the combined integral and through nodes / weights; model sub 7: the combined weights
    rebuilt from the component grids' 1D point lists and this dimension's moments. Oracles: both public paths agree, repeated calls agree,
    the combined weights are the tensor products of each dimension's OWN weighted trapezoidal weights (static compute_weights on fresh
    distribution objects), continued refinement obeys the same laws."""
    m8, m7, idx8, idx7 = [], [], [], []
    for i, c in enumerate(cases):
        st, r = impl[i]
        if st != 'ok' or r[0] != 'ok':
            continue
        r = r[1]
        sig0 = dict(boundary=int(c['boundary']), shared_distribution=shared_distribution(c),
                    truncated_normal=int(any(d[0] == 'Normal' and not (math.isinf(lo) and math.isinf(hi)) for d, lo, hi in zip(c['distrs'], c['a'], c['b']))))
        dim = len(c['a'])
        chk.count('moments:model output length %d' % c.get('outputs', 2))
        chk.count('moments:c=%s' % ('0' if c['c'] == 0 else ('|c| <= 2^-12' if abs(c['c']) < 1e-3 else ('|c| >= 1024' if abs(c['c']) > 1000 else ('negative' if c['c'] < 0 else 'positive')))))
        same_dom = len(set(zip(c['a'], c['b']))) < dim and len(set(map(str, c['distrs']))) > 1
        if same_dom:
            chk.count('moments:different distributions on a shared domain')
        if 'paths_exc' in r:
            chk.violation('oracle:moments/paths-exception', 'moments-law', dict(sig0, clause='paths-exception'), c,
                          dict(property_predicate='calculate_expectation_and_variance raises on a second call / on the nodes-and-weights path',
                               exception=str(r['paths_exc'])))
        else:
            chk.count('moments:paths (repeated call, use_combiinstance_solution=False, calculate_expectation)')
            fs_, cc_, e_, G_, sc_ = moment_scales(c)
            comp_scale = [G_, sc_, abs(F(c['const'])) * fs_][:c.get('outputs', 2)]          # magnitude of each output component
            tolE = [F(1, 10 ** 10) * x * (1 + r['wabs']) for x in comp_scale]
            tolV = [F(1, 10 ** 10) * x * x * (1 + r['wabs']) for x in comp_scale]
            orc = None
            if r['again'] != (r['E'], r['V']):
                orc = ('repeated-call', 'a second calculate_expectation_and_variance on the same objects (after the returned arrays were overwritten) returns different numbers')
            elif r['again2'] != (r['E'], r['V']):
                orc = ('observer-changes-state', 'calculate_expectation_and_variance differs after a call of the nodes-and-weights path')
            elif r['expectation'] != r['nodes'][0]:
                orc = ('calculate-expectation', 'calculate_expectation(use_combiinstance_solution=False) differs from the expectation of the same path')
            elif any(abs(x - y) > t for x, y, t in zip(r['nodes'][0], r['E'], tolE)) or len(r['nodes'][0]) != len(r['E']):
                orc = ('paths-expectation', 'E from nodes/weights %s, from the combined integral %s' % ([float(x) for x in r['nodes'][0]], [float(x) for x in r['E']]))
            elif any(abs(x - y) > t for x, y, t in zip(r['nodes'][1], r['V'], tolV)):
                orc = ('paths-variance', 'Var from nodes/weights %s, from the combined integral %s' % ([float(x) for x in r['nodes'][1]], [float(x) for x in r['V']]))
            elif any(v < 0 for v in r['nodes'][1]):
                orc = ('variance-negative', 'negative variance %s on the nodes/weights path' % float(min(r['nodes'][1])))
            if orc:
                chk.violation('oracle:moments/' + orc[0], 'moments-law', dict(sig0, clause=orc[0]), c, dict(property_predicate=orc[1]))
        chk.count('moments:model magnitude 2^%d' % round(math.log2(c.get('fscale', 1.0))))
        for nm in r.get('arg_mut', []):
            chk.violation('oracle:argument-mutated', 'argument-mutated', dict(argument=nm, call='UQ run'), c,
                          dict(property_predicate='the library modified the object %s it was given' % nm))
        for nm in r.get('aliasing', []):
            chk.violation('oracle:result-aliases-internal-state', 'result-aliases-internal-state', dict(getter=nm), c,
                          dict(property_predicate='overwriting what %s (or calculate_expectation_and_variance) returned changes later results' % nm))
        if 'twin' in r and 'stage2' in r:
            chk.count('moments:twin pipeline without observer calls compared')
            if (r['twin']['E'], r['twin']['V'], r['twin']['integral']) != (r['stage2']['E'], r['stage2']['V'], r['stage2']['integral']):
                chk.violation('oracle:moments/observer-changes-state', 'moments-law', dict(sig0, clause='observer-changes-state'), c,
                              dict(property_predicate='the continued run differs from a twin run without observer calls between stop and continuation',
                                   with_observers=[float(x) for x in r['stage2']['E'] + r['stage2']['V']],
                                   without=[float(x) for x in r['twin']['E'] + r['twin']['V']]))
        elif ('twin' in r) != ('stage2' in r) and c.get('stages'):
            chk.violation('oracle:moments/observer-changes-state', 'moments-law', dict(sig0, clause='observer-changes-state'), c,
                          dict(property_predicate='only one of the continued run and its twin without observer calls raised',
                               stage2=str(r.get('stage2_exc')), twin=str(r.get('twin_exc'))))
        if 'stage2_exc' in r:
            chk.count('moments:continued run raised %s %s' % (r['stage2_exc'][1], r['stage2_exc'][2]))
        elif 'stage2' in r:
            chk.count('moments:continued refinement on the same objects')
            o = oracle_moments(c, r['stage2'])
            if o:
                chk.violation('oracle:moments/' + o[0], 'moments-law', dict(sig0, clause=o[0], stage=2), c,
                              dict(property_predicate=o[1] + ' (after continue_adaptive_refinement)'))
        if 'W' not in r:
            continue
        m8.append((8, [c.get('outputs', 2), r['W'], r['F']])); idx8.append(i)
        comps = []
        for cd in r['comps']:
            dims = []
            for d in range(dim):
                pts, mom = cd['pts'][d], cd['moments'][d]
                fa = F(c['a'][d]) if not math.isinf(c['a'][d]) else F(0)
                fb = F(c['b'][d]) if not math.isinf(c['b'][d]) else F(0)
                dims.append([fa, fb, [[pts[j], pts[j + 1], mom[j][0], mom[j][1]] for j in range(len(pts) - 1)]])
            comps.append([cd['coeff'], dims])
        m7.append((7, [c['boundary'], comps])); idx7.append(i)
    r8 = run_model(15, m8)
    r7 = run_model(15, m7)
    for i, mr in zip(idx8, r8):
        c = cases[i]; r = impl[i][1][1]
        chk.traces += 1
        sig0 = dict(boundary=int(c['boundary']), shared_distribution=shared_distribution(c))
        mint = [sx.q(x) for x in mr[0]]
        mEc, mVc = [sx.q(x) for x in mr[1][0]], [sx.q(x) for x in mr[1][1]]
        mEn, mVn = [sx.q(x) for x in mr[2][0]], [sx.q(x) for x in mr[2][1]]
        K = c.get('outputs', 2)
        mag = [sum(abs(w) * abs(v[j]) for w, v in zip(r['W'], r['F'])) for j in range(K)]
        mag = mag + [sum(abs(w) * v[j] * v[j] for w, v in zip(r['W'], r['F'])) for j in range(K)]
        bad = None
        for j in range(2 * K):
            if abs(mint[j] - r['integral'][j]) > F(1, 2 ** 40) * (mag[j] + F(1, 2 ** 40)):
                bad = ('combined integral', dict(component=j, impl=float(r['integral'][j]), model=float(mint[j])))
        if bad is None and 'nodes' in r:
            for j in range(K):
                if abs(mEn[j] - r['nodes'][0][j]) > F(1, 2 ** 40) * (mag[j] + F(1, 2 ** 40)):
                    bad = ('expectation (nodes/weights path)', dict(component=j, impl=float(r['nodes'][0][j]), model=float(mEn[j])))
                elif abs(mVn[j] - r['nodes'][1][j]) > F(1, 2 ** 38) * (mag[K + j] + mag[j] ** 2 + F(1, 2 ** 40)):
                    bad = ('variance (nodes/weights path)', dict(component=j, impl=float(r['nodes'][1][j]), model=float(mVn[j])))
        if bad is None and (mEc != mEn or mVc != mVn):
            bad = ('model: the two paths differ in exact arithmetic', dict(combi=str((mEc, mVc))[:200], nodes=str((mEn, mVn))[:200]))
        if bad:
            chk.violation('corr:C15/rule', 'rule-differs', dict(sig0, observable=bad[0]), c, dict(bad[1], property_predicate='see the moments oracles'),
                          failing_input=False)
    for i, mr in zip(idx7, r7):
        c = cases[i]; r = impl[i][1][1]
        dim = len(c['a'])
        chk.traces += 1
        sig0 = dict(boundary=int(c['boundary']), shared_distribution=shared_distribution(c))
        chk.count('moments:combination with %s component grids' % size_class(len(r['comps'])))
        # reference: coefficient * tensor product of every dimension's own weights (fresh objects, static method)
        ref, colliding = [], 0
        seen = {}
        for cd in r['comps']:
            t = [1.0]
            for d in range(dim):
                w = [float(x) for x in (cd['ref'][d] if c['boundary'] else cd['ref'][d][1:-1])]
                t = [x * y for x in t for y in w]
                key = str(cd['pts'][d])
                if key in seen and seen[key] != str(c['distrs'][d]):
                    colliding += 1
                seen.setdefault(key, str(c['distrs'][d]))
            ref.extend(x * cd['coeff'] for x in t)
        if colliding:
            chk.count('moments:run in which one 1D point list occurs in two differently distributed dimensions')
        W = [float(x) for x in r['W']]
        if len(ref) != len(W) or any(abs(x - y) > 1e-12 * (1 + abs(y)) for x, y in zip(W, ref)):
            j = next((j for j, (x, y) in enumerate(zip(W, ref)) if abs(x - y) > 1e-12 * (1 + abs(y))), None)
            chk.violation('oracle:moments/combined-weights', 'moments-law', dict(sig0, clause='combined-weights'), c,
                          dict(property_predicate='the combined weights of the run are not the combination of the tensor products of each dimension\'s own '
                               'weighted trapezoidal weights (index %s: %s vs %s)' % (j, W[j] if j is not None else len(W),
                                                                                       ref[j] if j is not None else len(ref))))
            continue
        if mr == [0] or sx.is_err(mr):
            chk.violation('corr:C15/combined', 'combined-differs', dict(sig0, observable='model rejects'), c, dict(model=str(mr)[:200]), failing_input=False)
            continue
        mW = [float(sx.q(x)) for x in mr[1]]
        # tolerance: the 1D bounds propagated through products and the coefficient
        bounds = []
        for cd in r['comps']:
            ws, ts = [], []
            for d in range(dim):
                pcase = dict(distr=c['distrs'][d], a=c['a'][d], b=c['b'][d], boundary=c['boundary'], mb=False)
                pr = dict(pts=cd['pts'][d], moments=cd['moments'][d], static=('ok', cd['ref'][d]))
                ts.append([float(t) for t in weight_tolerances(pcase, pr, len(cd['pts'][d]), not c['boundary'])])
                ws.append([float(x) for x in (cd['ref'][d] if c['boundary'] else cd['ref'][d][1:-1])])
            bounds.extend(x * abs(cd['coeff']) for x in propagate_bounds(ws, ts))
        if len(mW) != len(W) or any(abs(x - y) > t + 1e-13 * abs(y) for x, y, t in zip(W, mW, bounds)):
            j = next((j for j, (x, y, t) in enumerate(zip(W, mW, bounds)) if abs(x - y) > t + 1e-13 * abs(y)), None)
            chk.violation('corr:C15/combined', 'combined-differs', dict(sig0, observable='combined weights'), c,
                          dict(index=j, impl=W[j] if j is not None else len(W), model=mW[j] if j is not None else len(mW),
                               property_predicate='holds on this case'), failing_input=False)


def shared_distribution(c):
    """Two dimensions with the same distribution description but different domains [a_d,b_d] (uniform / triangle depend on them)."""
    n = len(c['a'])
    return int(any(c['distrs'][i] == c['distrs'][j] and c['distrs'][i][0] in ('Uniform', 'Triangle')
                   and (c['a'][i], c['b'][i]) != (c['a'][j], c['b'][j]) for i in range(n) for j in range(i + 1, n)))


def moment_scales(c):
    """Magnitudes of the model outputs (lesson d: every tolerance is relative to them): the model is fscale * (g, c g + e[, const]),
    |g| <= 2 for all model functions used (|const| for the constant model)."""
    fs = F(c.get('fscale', 1.0))
    cc, e = F(c['c']), F(c['e']) * fs
    G = (abs(F(c['const'])) if c['model'] == 'const' else F(2)) * fs
    return fs, cc, e, G, abs(cc) * G + abs(e)


def oracle_moments(c, r):
    E, V = r['E'], r['V']
    fs, cc, e, G, scale = moment_scales(c)
    wabs = r['wabs']
    K = c.get('outputs', 2)
    if len(E) != K or len(V) != K or len(r.get('integral', [0] * (2 * K))) != 2 * K:
        return ('output-length', '%d expectations, %d variances, combined integral of length %d for a model with %d outputs'
                % (len(E), len(V), len(r.get('integral', [])), K))
    if abs(r['wsum'] - 1) > F(1, 10 ** 11) * (1 + wabs):
        return ('weights-sum', 'combined weights sum to %.15g' % float(r['wsum']))
    if any(v < 0 for v in V):
        return ('variance-negative', 'negative variance %s' % float(min(V)))
    if abs(E[1] - (cc * E[0] + e)) > F(1, 10 ** 9) * scale * (1 + wabs):
        return ('expectation-affine', 'E[c f + e] = %.15g, c E[f] + e = %.15g' % (float(E[1]), float(cc * E[0] + e)))
    if abs(V[1] - cc * cc * V[0]) > F(1, 10 ** 9) * scale * scale * (1 + wabs):
        return ('variance-affine', 'Var[c f + e] = %.15g, c^2 Var[f] = %.15g' % (float(V[1]), float(cc * cc * V[0])))
    k = F(c['const']) * fs
    if c.get('outputs', 2) == 3:
        if abs(E[2] - k) > F(1, 10 ** 10) * abs(k) * (1 + wabs) or abs(V[2]) > F(1, 10 ** 9) * k * k * (1 + wabs):
            return ('constant-model', 'constant third output %s: E = %.15g, Var = %.3g' % (float(k), float(E[2]), float(V[2])))
    if c['model'] == 'const':
        if abs(E[0] - k) > F(1, 10 ** 10) * abs(k) * (1 + wabs) or abs(V[0]) > F(1, 10 ** 9) * k * k * (1 + wabs):
            return ('constant-model', 'constant model %s: E = %.15g, Var = %.3g' % (float(k), float(E[0]), float(V[0])))
    return None


# ----------------------------------------------------------------------------------------------- fixed corpus
def corpus():
    w = []
    for distr, a, b in [(['Uniform'], 0.0, 1.0), (['Triangle', 0.25], 0.0, 1.0), (['Normal', 0.2, 1.0], -math.inf, math.inf)]:
        for bd in (True, False):
            for n, picks in [(3, [0.0]), (4, [0.0, 0.0]), (6, [0.0, 0.9, 0.3, 0.5])]:
                w.append(dict(kind='weights', distr=distr, a=a, b=b, boundary=bd, mb=False, n=n, style='random', picks=picks))
    w.append(dict(kind='weights', distr=['Uniform'], a=-1.0, b=3.0, boundary=False, mb=True, n=7, style='random', picks=[0.1, 0.9, 0.3, 0.5, 0.7]))
    m = [dict(kind='moments', distrs=[['Normal', 0.2, 1.0], ['Normal', 0.2, 1.0]], a=[-math.inf, -math.inf], b=[math.inf, math.inf], boundary=False,
              c=3.0, e=-2.0, model='jump', const=1.75, maxev=60, lmax=2),
         dict(kind='moments', distrs=[['Uniform'], ['Triangle', 0.25]], a=[-1.0, 0.0], b=[3.0, 1.0], boundary=True,
              c=3.0, e=-2.0, model='const', const=1.75, maxev=40, lmax=2)]
    m.append(dict(kind='moments', distrs=[['Uniform'], ['Uniform']], a=[0.0, 0.0], b=[1.0, 1.0], boundary=False, c=2.0, e=1.0, model='peak',
                  pos=[0.5, 0.25], width=200.0, const=0.0, maxev=10, lmax=2))
    m.append(dict(kind='moments', distrs=[['Uniform'], ['Uniform']], a=[0.0, 0.0], b=[1.0, 1.0], boundary=True, c=-3.0, e=0.25, model='peak',
                  pos=[0.5, 0.5], width=200.0, const=0.0, maxev=10, lmax=2))
    m.append(dict(kind='moments', distrs=[['Normal', 0.0, 1.0], ['Normal', 0.0, 1.0]], a=[-math.inf, -math.inf], b=[math.inf, math.inf],
                  boundary=False, c=2.0, e=1.0, model='peak', pos=[0.0, 0.0], width=8.0, const=0.0, maxev=10, lmax=2))
    m.append(dict(kind='moments', distrs=[['Normal', 0.0, 1.0], ['Normal', 0.0, 1.0]], a=[-math.inf, -math.inf], b=[math.inf, math.inf],
                  boundary=False, c=0.5, e=-2.0, model='osc', pos=[0.0, 0.0], width=8.0, const=0.0, maxev=10, lmax=2))
    # sizes beyond internal thresholds / block sizes (lesson h)
    w.append(dict(kind='weights', distr=['Uniform'], a=-1.0, b=3.0, boundary=True, mb=False, n=1025, style='uniform', picks=[0.0] * 1023, extra_mids=[], ctor='kw'))
    w.append(dict(kind='weights', distr=['Normal', 0.2, 1.0], a=-math.inf, b=math.inf, boundary=False, mb=False, n=515, style='uniform', picks=[0.0] * 513,
                  extra_mids=[], ctor='pos'))
    # exemplars of the known findings
    w.append(dict(kind='weights', distr=['Triangle', 1000000.3], a=1000000.0, b=1000001.0, boundary=True, mb=False, n=9, style='uniform', picks=[0.0] * 7,
                  extra_mids=[], ctor='kw'))
    w.append(dict(kind='weights', distr=['Normal', 0.0, 1.0], a=-2.0, b=2.0, boundary=True, mb=False, n=6, style='random', picks=[0.0, 0.9, 0.3, 0.5]))
    m.append(dict(kind='moments', distrs=[['Uniform'], ['Uniform']], a=[0.0, 2.0], b=[1.0, 2.5], boundary=True, c=-3.0, e=0.0, model='jump',
                  const=-2.0, maxev=20, lmax=2))
    m.append(dict(kind='moments', distrs=[['Uniform'], ['Uniform']], a=[2.0, -1.0], b=[2.5, 3.0], boundary=True, c=2.0, e=1.0, model='smooth',
                  const=-2.0, maxev=40, lmax=3))      # same finding, seen as 'calculated negative weight'
    m.append(dict(kind='moments', distrs=[['Uniform'], ['Normal', -3.0, 0.5]], a=[-3.0, -4.0], b=[6.0, -2.0], boundary=True, c=0.5, e=1.0,
                  model='jump', const=1.75, maxev=20, lmax=2))
    return w, m


def grid_corpus():
    inf = math.inf
    return [
        dict(kind='grid', distrs=[['Triangle', 0.3], ['Uniform']], a=[0.0, 0.0], b=[1.0, 1.0], form='tuples',
             grids=[dict(boundary=True, mb=False, ctor='kw'), dict(boundary=False, mb=False, ctor='kw')],
             steps=[dict(g=0, dims=[['dyadic', 2], ['copy', 0]]), dict(g=1, dims=[['dyadic', 3], ['copy', 0]]),
                    dict(g=0, dims=[['own', 'uniform', 5, [0.0, 0.0, 0.0]], ['prev', 0, 0]]), dict(g=0, dims=[['prev', 0, 0], ['prev', 2, 0]])]),
        dict(kind='grid', distrs=[['Uniform'], ['Triangle', 0.5], ['Triangle', 0.25]], a=[0.0] * 3, b=[1.0] * 3, form='mixed',
             grids=[dict(boundary=True, mb=False, ctor='default')],
             steps=[dict(g=0, dims=[['dyadic', 1], ['copy', 0], ['copy', 0]]), dict(g=0, dims=[['dyadic', 2], ['dyadic', 1], ['copy', 0]])]),
        dict(kind='grid', distrs=[['Normal', 0.0, 1.0], ['Normal', 0.5, 2.0]], a=[-inf, -inf], b=[inf, inf], form='tuples',
             grids=[dict(boundary=False, mb=False, ctor='pos')],
             steps=[dict(g=0, dims=[['own', 'uniform', 7, [0.0] * 5], ['copy', 0]]), dict(g=0, dims=[['own', 'random', 5, [0.3, 0.9, 0.1]], ['prev', 0, 0]])]),
        dict(kind='grid', distrs=[['Uniform'], ['Uniform']], a=[-1.0, -1.0], b=[3.0, 3.0], form='string',
             grids=[dict(boundary=False, mb=True, ctor='kw'), dict(boundary=True, mb=False, ctor='default')],
             steps=[dict(g=0, dims=[['dyadic', 3], ['own', 'left', 6, [0.1, 0.2, 0.3, 0.4]]]), dict(g=1, dims=[['prev', 0, 1], ['prev', 0, 0]]),
                    dict(g=0, dims=[['prev', 0, 0], ['prev', 0, 1]])]),
    ]


def run(chk):
    gen_info = _c15_gen.regenerate(chk)
    chk.coq_obligations(extra_props=_c15_gen.EXTRA_PROPS)
    gen_problem = _c15_gen.diagnose(chk, gen_info)
    rng = chk.rng
    wfix, mfix = corpus()
    gfix = grid_corpus()
    wcases = wfix + [gen_weight_case(rng) for _ in range(chk.n(300, 10000))]
    mcases = mfix + [gen_moment_case(rng) for _ in range(chk.n(80, 1200))]
    keys, samples = [], []
    import time
    t0 = time.time()
    ph = chk.extra.setdefault('phase_wall_s', {})
    wimpl = run_impl(impl_weights, wcases, limit=120)
    ph['weights: implementation'] = round(time.time() - t0, 1); t0 = time.time()
    check_weights(chk, wcases, wimpl, keys, samples)
    ph['weights: model + comparison'] = round(time.time() - t0, 1); t0 = time.time()
    gcases = gfix + [gen_grid_case(rng) for _ in range(chk.n(140, 2500))]
    gimpl = run_impl(impl_grid, gcases, limit=200)
    ph['grid histories: implementation'] = round(time.time() - t0, 1); t0 = time.time()
    check_grids(chk, gcases, gimpl, keys, samples)
    ph['grid histories: model + comparison'] = round(time.time() - t0, 1); t0 = time.time()
    mimpl = run_impl(impl_moments, mcases, limit=300)
    ph['moments: implementation'] = round(time.time() - t0, 1); t0 = time.time()
    check_moments(chk, mcases, mimpl, keys, samples)
    check_moment_paths(chk, mcases, mimpl)
    ph['moments: model + comparison'] = round(time.time() - t0, 1); t0 = time.time()
    confirm_alone(chk, [wcases, gcases, mcases])
    ph['confirmation of violating cases in fresh processes'] = round(time.time() - t0, 1)
    _c15_gen.finish(chk, gen_info, gen_problem)
    chk.record_cases(len(wcases) + len(mcases) + len(gcases), keys,
                     'weights: (distribution in uniform/triangle/normal, finite, half-infinite or infinite support, boundary, modified basis for uniform, '
                     'constructor argument style, refinement tree of 1..60 points (3% of the cases 65..1025) built with the grid\'s own weighted midpoint, '
                     '5 grading styles, fallback midpoint queries); grid histories: one operation, 1-2 grid objects (boundary on/off), d 1..3, 2-4 set_grid '
                     'requests whose 1D point lists are shared between differently distributed dimensions / re-used from earlier requests / repeated / '
                     'replaced by another tree of equal size, every dimension compared with the model, a fresh 1D object and the tensor product; moments: '
                     'adaptive runs (d 1..3, 1..70 evaluations, optionally continued) of a vector model (f, c f + e[, const]) incl. sharply peaked / '
                     'oscillating models whose raw combined variance is negative and differently distributed dimensions on one domain, both evaluation '
                     'paths, combined weights rebuilt from the component grids; non-trivial = >= 3 grid points resp. >= 4 tensor points resp. >= 5 '
                     'sparse grid points; distinct by all parameters', samples)


def _reevaluate(cases):
    """Run the cases (one kind) sequentially in ONE fresh worker process and collect what the comparison / oracle code reports for the last one."""
    kind = cases[-1].get('kind')
    col = _Collector()
    if kind == 'grid':
        cs = [{k: v for k, v in c.items() if k != 'focus'} for c in cases]
        res = run_impl(impl_grid, cs, nproc=1, limit=200)
        check_grids(col, cs[-1:], res[-1:], [], [])
    elif kind == 'moments':
        res = run_impl(impl_moments, cases, nproc=1, limit=300)
        st, r = res[-1]
        if st == 'ok' and r[0] == 'ok':
            o = oracle_moments(cases[-1], r[1])
            if o:
                col.violation('oracle:moments/' + o[0], 'moments-law', {}, cases[-1], dict(property_predicate=o[1]))
            check_moment_paths(col, cases[-1:], res[-1:])
        elif st == 'ok' and r[0] in ('exc', 'nan'):
            col.violation('oracle:moments/' + r[0], 'moments-law', {}, cases[-1], dict(impl=str(r)[:300]))
    elif kind == 'weights':
        res = run_impl(impl_weights, cases, nproc=1, limit=120)
        check_weights(col, [dict(cases[-1])], res[-1:], [], [])
    else:
        return None
    return col


def confirm_alone(chk, parts):
    """Lesson g: the workers evaluate many cases per process, so state shared at class / module level can leak from one case into the next.
    Every group of violations with a failing input is re-run ALONE in a fresh process; when it does not reproduce there, the cases that preceded
    it in its part are replayed in front of it in one fresh process and the violation's case becomes that sequence (kind 'sequence')."""
    import json
    import os
    try:
        known = [f for f in json.load(open(os.path.join(os.path.dirname(os.path.abspath(__file__)), '..', '..', '..', 'known_findings.json')))
                 if f['property'] == 'C15' and f['status'] == 'known']
    except Exception:
        known = []

    def is_known(v):
        return any(f['signature']['kind'] == v['kind'] and all((v['sig'].get(k) in val) if isinstance(val, list) else (v['sig'].get(k) == val)
                                                               for k, val in f['signature'].get('where', {}).items()) for f in known)
    seen = set()
    for v in sorted(chk.violations, key=lambda v: v['size']):
        if is_known(v):
            continue
        key = (v['kind'], str(sorted(v['sig'].items())) if isinstance(v['sig'], dict) else str(v['sig']))
        c = v['case']
        if not v['failing_input'] or key in seen or not isinstance(c, dict) or c.get('kind') not in ('grid', 'moments', 'weights') or len(seen) >= 10:
            continue
        seen.add(key)
        col = _reevaluate([c])
        if col is not None and any(f[2] for f in col.found):
            chk.count('confirm:violating case re-run alone in a fresh process - reproduced')
            v['detail'] = dict(v['detail'], alone_in_fresh_process='reproduced')
            continue
        chk.count('confirm:violating case re-run alone in a fresh process - NOT reproduced')
        plain = {k: x for k, x in c.items() if k != 'focus'}
        def same(q):
            q = {k: x for k, x in q.items() if k != '_i'}
            if q == plain:
                return True
            return (q.get('steps') is not None and plain.get('steps') is not None and q['steps'][:len(plain['steps'])] == plain['steps']
                    and {k: x for k, x in q.items() if k != 'steps'} == {k: x for k, x in plain.items() if k != 'steps'})
        part = next((p_ for p_ in parts if any(same(q) for q in p_)), None)
        chain = None
        if part is not None:
            idx = next(i for i, q in enumerate(part) if same(q))
            chain = [{k: x for k, x in q.items() if k != '_i'} for q in part[max(0, idx - 40):idx]] + [plain]
            col = _reevaluate(chain)
        if chain is not None and col is not None and any(f[2] for f in col.found):
            v['case'] = dict(kind='sequence', cases=chain)
            v['size'] = len(str(chain))
            v['detail'] = dict(v['detail'], alone_in_fresh_process='not reproduced alone; reproduced after the preceding cases in one fresh process '
                               '(state shared across instances)')
        else:
            v['failing_input'] = False
            v['detail'] = dict(v['detail'], alone_in_fresh_process='not reproduced alone nor after its predecessors: the violation depends on process state the '
                               'harness could not reconstruct')


class _Collector:
    """Stands in for the Check object during a replay: runs the same comparison / oracle code and collects what it reports."""
    def __init__(self):
        self.found = []
        self.traces = 0
        self.extra = {}

    def count(self, key, k=1):
        pass

    def violation(self, check, kind, sig, case, detail, failing_input=True, size=None):
        self.found.append((check, kind, failing_input, detail))


def replay(chk, rep):
    c = rep['case']
    if c.get('kind') == 'sequence':
        col = _reevaluate(c['cases'])
        for f in (col.found if col else []):
            print('reported:', f[0], f[1], 'failing-input' if f[2] else 'correspondence-only', str(f[3])[:600])
        print('property predicate:', 'violated' if col and any(f[2] for f in col.found) else 'holds')
        return 1 if col and any(f[2] for f in col.found) else 0
    if c.get('kind') == 'grid':
        c = {k: v for k, v in c.items() if k != 'focus'}
        res = run_impl(impl_grid, [c], limit=200)
        col = _Collector()
        check_grids(col, [c], res, [], [])
        for f in col.found:
            print('reported:', f[0], f[1], 'failing-input' if f[2] else 'correspondence-only', str(f[3])[:600])
        print('property predicate:', 'violated' if any(f[2] for f in col.found) else 'holds')
        return 1 if any(f[2] for f in col.found) else 0
    if c.get('kind') == 'moments':
        res = run_impl(impl_moments, [c], limit=300)
        st, r = res[0]
        print('impl:', st, str(r)[:1500])
        if st == 'ok' and r[0] == 'ok':
            o = oracle_moments(c, r[1])
            print('model:', run_model(15, [(5, [r[1]['integral']])])[0])
            print('property predicate:', o or 'holds')
            col = _Collector()
            check_moment_paths(col, [c], res)
            for f in col.found:
                print('reported:', f[0], f[1], 'failing-input' if f[2] else 'correspondence-only', str(f[3])[:600])
            return 1 if o or any(f[2] for f in col.found) else 0
        return 0
    if c.get('kind') == 'mid':
        import numpy as np
        wc = dict(kind='weights', distr=c['distr'], a=c['a'], b=c['b'], boundary=False, mb=False, n=3, style='random', picks=[0.0])
        st, r = run_impl(impl_weights, [wc])[0]
        print('impl:', st, str(r.get('mids') if isinstance(r, dict) else r)[:1500])
        if st == 'ok' and r.get('mids'):
            o = oracle_mid(r['mids'][0])
            print('property predicate:', o or 'holds')
            return 1 if o else 0
        return 0
    st, r = run_impl(impl_weights, [c])[0]
    print('impl:', st, str(r)[:2500])
    if st == 'ok' and 'setup' not in r:
        o = oracle_weights(c, r)
        print('property predicate:', o or 'holds')
        if o:
            return 1
        for rec in r['mids']:
            o = oracle_mid(rec)
            if o:
                print('midpoint predicate:', o)
                return 1
    return 0
