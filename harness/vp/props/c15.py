"""C15: weighted UQ quadrature is a probability measure; moments transform correctly.

Part A: GlobalTrapezoidalGridWeighted weights and weighted midpoints on refinement trees that are built with the grid's own
get_mid_point (uniform / triangle / normal distributions, finite and infinite support, boundary on/off, modified basis for
uniform). The model (Model/UQ.v) receives the interval moments the implementation's distribution object returned and must
reproduce the weights; the closed-form uniform / triangle instances of the model are compared with these moments and weights.
Part B: calculate_expectation_and_variance on a vector model (f, c f + e) sharing one adaptively refined grid."""
import math
import random
from fractions import Fraction as F
from .. import sx
from ..impl import run_impl
from ..model import run_model

ASSUMPTIONS = [
    'the distribution enters the model through the interval moments returned by the implementation (chaospy / scipy cdf, '
    'scipy.integrate.quad); the hypotheses of the theorems on these moments (m0 >= 0, x1*m0 <= m1 <= x2*m0, sum m0 = 1) are '
    'spot-checked numerically in every run (normal moments are transcendental)',
    'weights: |impl - model| <= 2^-40 * (conditioning of the weight formula) ; expectation/variance: model = moments_to_'
    'expectation_variance on the implementation\'s combined integral, |impl - model| <= 2^-45 * (|mom2| + mom1^2)',
    'first moments of the triangle distribution are computed by the implementation with epsrel=1e-2, epsabs=inf (one Gauss-'
    'Kronrod pass): compared with the closed form at relative tolerance 1e-2, maximal deviation recorded in evidence',
    'sum-to-one with boundary points is checked against cdf(b)-cdf(a) (equal to 1 when [a,b] covers the support)',
    'uniform distribution, boundary=False: the weights are the inner unweighted trapezoidal weights RENORMALISED to sum 1 '
    '(not divided by b-a); boundary=True: divided by b-a',
    'affine laws: tolerance 1e-9 * (|c| G + |e|) for E and 1e-9 * (|c| G + |e|)^2 * (1 + sum |w|) for Var, G = bound of |f|',
]

T40 = F(1, 2 ** 40)
MAXDEPTH = 20


def ext(x):
    if isinstance(x, float) and math.isinf(x):
        return [1] if x > 0 else [-1]
    return [0, sx.rat(x)]


def qq(v):
    return v if isinstance(v, F) else sx.q(v)


def ext_float(e):
    if e == [1]:
        return math.inf
    if e == [-1]:
        return -math.inf
    return float(qq(e[1]))


# ----------------------------------------------------------------------------------------------- generators
def gen_distribution(rng):
    r = rng.random()
    if r < 0.3:
        a, b = rng.choice([(0.0, 1.0), (-1.0, 3.0), (2.0, 2.5), (-3.0, 6.0)])
        return ('Uniform',), a, b
    if r < 0.6:
        a, b = rng.choice([(0.0, 1.0), (-1.0, 3.0), (2.0, 2.5), (0.0, 2.0)])
        c = a + (b - a) * rng.choice([0.25, 0.5, 0.75, 0.125, 0.3, 0.9])
        return ('Triangle', c), a, b
    mu, sigma = rng.choice([(0.2, 1.0), (0.0, 2.0), (-3.0, 0.5), (10.0, 0.25), (0.0, 1.0)])
    if rng.random() < 0.7:
        return ('Normal', mu, sigma), -math.inf, math.inf
    k = rng.choice([2.0, 4.0, 8.0])       # finite support: the weights then sum to cdf(b)-cdf(a) with boundary points
    return ('Normal', mu, sigma), mu - k * sigma, mu + k * sigma


def gen_weight_case(rng):
    distr, a, b = gen_distribution(rng)
    boundary = rng.random() < 0.5
    mb = (distr[0] == 'Uniform') and (not boundary) and rng.random() < 0.3
    r = rng.random()
    n = rng.choice([1, 2, 3, 3, 4, 5, 6]) if r < 0.3 else (rng.randrange(7, 25) if r < 0.8 else rng.randrange(25, 61))
    style = rng.choice(['uniform', 'left', 'right', 'ends', 'random'])
    picks = [rng.random() for _ in range(max(0, n - 2))]
    return dict(kind='weights', distr=list(distr), a=a, b=b, boundary=boundary, mb=mb, n=n, style=style, picks=picks)


def gen_peaked_case(rng):
    """d = 2, sharply peaked or oscillating model, few refinement steps: the combination technique's negative coefficients then
    give combined moments with E[f^2] < E[f]^2 (negative raw variance) on a large share of the cases."""
    r = rng.random()
    if r < 0.45:
        distrs, a, b = [['Uniform'], ['Uniform']], [0.0, 0.0], [1.0, 1.0]
        boundary = rng.random() < 0.5
        pos = list(rng.choice([(0.5, 0.5), (0.3, 0.6), (0.25, 0.75), (0.5, 0.25), (0.625, 0.375)]))
        width = rng.choice([50.0, 200.0, 800.0])
    elif r < 0.9:
        mu = rng.choice([0.0, 0.2])
        distrs, a, b = [['Normal', mu, 1.0], ['Normal', mu, 1.0]], [-math.inf, -math.inf], [math.inf, math.inf]
        boundary = False
        pos = list(rng.choice([(0.0, 0.0), (0.5, -0.5), (1.0, 0.0), (0.2, 0.2)]))
        width = rng.choice([2.0, 8.0, 30.0])
    else:
        distrs, a, b = [['Uniform'], ['Normal', 0.0, 1.0]], [0.0, -math.inf], [1.0, math.inf]
        boundary = False
        pos = [rng.choice([0.5, 0.25]), rng.choice([0.0, 0.5])]
        width = rng.choice([8.0, 50.0])
    model = rng.choice(['peak', 'peak', 'osc'])
    if model == 'osc' and distrs[0][0] == 'Uniform' and distrs[1][0] == 'Uniform':
        width = 2.0 * math.sqrt(width)
    maxev, lmax = rng.choice([(1, 2), (10, 2), (10, 2), (25, 2), (10, 3), (40, 3)])
    return dict(kind='moments', distrs=distrs, a=a, b=b, boundary=boundary, c=rng.choice([2.0, -3.0, 0.5, -1.0, 4.0]),
                e=rng.choice([0.0, 1.0, -2.0, 7.0, 0.25]), model=model, pos=pos, width=width, const=0.0, maxev=maxev, lmax=lmax)


def gen_moment_case(rng):
    if rng.random() < 0.5:
        return gen_peaked_case(rng)
    dim = rng.choice([1, 2, 2, 2])
    distrs, a, b = [], [], []
    for _ in range(dim):
        d, lo, hi = gen_distribution(rng)
        distrs.append(list(d)); a.append(lo); b.append(hi)
    infinite = any(math.isinf(x) for x in a + b)
    boundary = (not infinite) and rng.random() < 0.4
    c = rng.choice([2.0, -3.0, 0.5, 1.0, -1.0, 4.0])
    e = rng.choice([0.0, 1.0, -2.0, 7.0, 0.25])
    return dict(kind='moments', distrs=distrs, a=a, b=b, boundary=boundary, c=c, e=e, model=rng.choice(['smooth', 'jump', 'const']),
                const=rng.choice([1.75, -2.0, 0.0]), maxev=rng.choice([20, 40, 70]), lmax=rng.choice([2, 2, 3]))


# ----------------------------------------------------------------------------------------------- implementation workers
def _exc(e):
    import traceback
    tb = traceback.extract_tb(e.__traceback__)
    where = ''
    for fr in reversed(tb):
        if 'sparseSpACE' in fr.filename:
            where = '%s:%d' % (fr.filename.split('/')[-1], fr.lineno)
            break
    return ('exc', type(e).__name__, where, str(e)[:160])


def _f(x):
    import numpy as np
    return float(np.asarray(x).reshape(-1)[0])


def impl_weights(case):
    import numpy as np
    import warnings
    warnings.filterwarnings('ignore')
    from sparseSpACE.Grid import GlobalTrapezoidalGridWeighted, GlobalTrapezoidalGrid
    from sparseSpACE.GridOperation import UncertaintyQuantification
    from sparseSpACE.Function import FunctionLinear
    a, b = case['a'], case['b']
    distr = tuple(case['distr'])
    out = dict(mids=[])
    try:
        op = UncertaintyQuantification(FunctionLinear([1.0]), [distr], [a], [b])
        g = GlobalTrapezoidalGridWeighted([a], [b], op, boundary=case['boundary'], modified_basis=case['mb'])
        d = op.get_distributions()[0]
        # refinement tree built with the grid's own (probability-halving) midpoint
        if case['n'] == 1:
            pts, lev = [0.5 * (a + b) if not (math.isinf(a) or math.isinf(b)) else 0.0], [0]
        else:
            iv = [(a, b, 0, 0, 0)]
            for r in case['picks']:
                st = case['style']
                # depth cap: below ~2^-20 of the support the interval moments (cdf differences) lose their digits - a limit of
                # double precision, not of the rule
                cand = [j for j in range(len(iv)) if iv[j][4] < MAXDEPTH]
                if not cand:
                    break
                if st == 'left':
                    i = cand[0] if r < 0.85 else cand[int(r * len(cand)) % len(cand)]
                elif st == 'right':
                    i = cand[-1] if r < 0.85 else cand[int(r * len(cand)) % len(cand)]
                elif st == 'ends':
                    i = cand[0] if r < 0.45 else (cand[-1] if r < 0.9 else cand[int(r * len(cand)) % len(cand)])
                else:
                    i = cand[int(r * len(cand)) % len(cand)]
                s, e, l0, l1, dp = iv[i]
                mid = g.get_mid_point(s, e, 0)
                ca, cb = _f(d.cdf(s)), _f(d.cdf(e))
                mid0 = d.ppf(0.5 * (ca + cb))
                rec = dict(a=ext(s), b=ext(e), cdf_a=sx.rat(ca), cdf_b=sx.rat(cb), mid0=ext(float(mid0)) if not math.isnan(float(mid0)) else None,
                           mid=ext(float(mid)) if not math.isnan(float(mid)) else None,
                           cdf_mid=sx.rat(_f(d.cdf(mid))) if not math.isnan(float(mid)) else None,
                           is_float=isinstance(mid, float))
                out['mids'].append(rec)
                if not (s < mid < e):
                    break                                   # the refinement object would assert here
                nl = max(l0, l1) + 1
                iv[i:i + 1] = [(s, mid, l0, nl, dp + 1), (mid, e, nl, l1, dp + 1)]
            pts = [iv[0][0]] + [x[1] for x in iv]
            lev = [iv[0][2]] + [x[3] for x in iv]
        out['pts'] = [ext(float(x)) for x in pts]
        out['levels'] = lev
        out['cdf_ab'] = (sx.rat(_f(d.cdf(a))), sx.rat(_f(d.cdf(b))))
    except Exception as e_:
        out['setup'] = _exc(e_)
        return out
    try:
        g.set_grid([list(pts)], [list(lev)])
        out['weights'] = ('ok', [sx.rat(float(w)) for w in g.weights[0]], [ext(float(x)) for x in g.coordinate_array[0]])
    except Exception as e_:
        out['weights'] = _exc(e_)
    try:
        w = GlobalTrapezoidalGridWeighted.compute_weights(list(pts), a, b, d, case['boundary'], case['mb'])
        out['static'] = ('ok', [sx.rat(float(x)) for x in w])
    except Exception as e_:
        out['static'] = _exc(e_)
    # the moments the distribution object hands to compute_weights (cached: identical values)
    try:
        out['moments'] = [(sx.rat(_f(d.get_zeroth_moment(pts[i], pts[i + 1]))), sx.rat(_f(d.get_first_moment(pts[i], pts[i + 1]))))
                          for i in range(len(pts) - 1)]
    except Exception as e_:
        out['moments'] = _exc(e_)
    if distr[0] == 'Uniform':
        try:
            out['trap'] = [sx.rat(float(x)) for x in GlobalTrapezoidalGrid.compute_weights(list(pts), a, b, case['mb'])]
        except Exception as e_:
            out['trap'] = None
    return out


def impl_moments(case):
    import numpy as np
    import warnings
    warnings.filterwarnings('ignore')
    from sparseSpACE.Function import Function
    from sparseSpACE.spatiallyAdaptiveSingleDimension2 import SpatiallyAdaptiveSingleDimensions2
    from sparseSpACE.ErrorCalculator import ErrorCalculatorSingleDimVolumeGuided
    from sparseSpACE.GridOperation import UncertaintyQuantification
    from sparseSpACE.Grid import GlobalTrapezoidalGridWeighted
    c, e, kind, const = case['c'], case['e'], case['model'], case['const']
    dim = len(case['a'])

    class Model(Function):
        def eval(self, x):
            if kind == 'const':
                gv = const
            elif kind == 'peak':
                gv = math.exp(-case['width'] * sum((x[d] - case['pos'][d]) ** 2 for d in range(dim)))
            elif kind == 'osc':
                gv = math.cos(case['width'] * (x[0] - case['pos'][0])) * math.cos(case['width'] * (x[-1] - case['pos'][-1]))
            elif kind == 'smooth':
                gv = math.sin(x[0]) + (0.5 * math.cos(2.0 * x[-1]) if dim > 1 else 0.25)
            else:
                gv = math.sin(x[0]) + (1.0 if x[-1] > 0.3 else 0.0)
            return [gv, c * gv + e]

        def output_length(self):
            return 2
    a = np.array(case['a']); b = np.array(case['b'])
    try:
        op = UncertaintyQuantification(Model(), [tuple(d) for d in case['distrs']], a, b)
        grid = GlobalTrapezoidalGridWeighted(a, b, op, boundary=case['boundary'])
        op.set_grid(grid)
        op.set_expectation_variance_Function()
        ci = SpatiallyAdaptiveSingleDimensions2(a, b, operation=op, norm=2, use_volume_weighting=True, grid_surplusses=op.get_grid())
        ci.performSpatiallyAdaptiv(1, case['lmax'], ErrorCalculatorSingleDimVolumeGuided(), tol=0, max_evaluations=case['maxev'],
                                   print_output=False)
        E, V = op.calculate_expectation_and_variance(ci)
        P, W = ci.get_points_and_weights()
        allv = [float(x) for x in list(E) + list(V) + list(op.get_result()) + [sum(W)]]
        if any(math.isnan(x) or math.isinf(x) for x in allv):
            return ('nan', dict(E=[float(x) for x in E], V=[float(x) for x in V], wsum=float(sum(W)), npoints=len(W)))
        return ('ok', dict(integral=[sx.rat(float(x)) for x in op.get_result()], E=[sx.rat(float(x)) for x in E],
                           V=[sx.rat(float(x)) for x in V], wsum=sx.rat(float(sum(W))), wabs=sx.rat(float(sum(abs(w) for w in W))),
                           npoints=len(W)))
    except Exception as e_:
        return _exc(e_)


# ----------------------------------------------------------------------------------------------- part A
def check_weights(chk, cases, impl, keys, samples):
    mcases, midx = [], []
    for i, c in enumerate(cases):
        st, r = impl[i]
        fam = c['distr'][0]
        chk.count('weights:%s boundary=%d modified=%d' % (fam, c['boundary'], c['mb']))
        sig0 = dict(family=fam, boundary=int(c['boundary']), mb=int(c['mb']), infinite=int(math.isinf(c['a']) or math.isinf(c['b'])))
        if st != 'ok' or 'setup' in r:
            chk.violation('corr:C15/weights', 'worker-failed', dict(sig0, status=st), c, dict(impl=str(r)[:400]))
            continue
        # --- weighted midpoints: model of get_middle_weighted + oracle (strictly inside, equal probability)
        for rec in r['mids']:
            chk.count('mid:evaluated')
            if rec['mid0'] is not None:
                mcases.append((4, [rec['a'], rec['b'], rec['mid0']])); midx.append((i, 'mid', rec))
            o = oracle_mid(rec)
            if o:
                chk.violation('oracle:mid/' + o[0], 'mid-' + o[0], dict(family=fam, infinite=sig0['infinite']),
                              dict(kind='mid', distr=c['distr'], a=ext_float(rec['a']), b=ext_float(rec['b'])), dict(text=o[1], record=str(rec)[:400]))
        pts = r['pts']
        n = len(pts)
        if isinstance(r['moments'], tuple) and r['moments'] and r['moments'][0] == 'exc':
            chk.violation('corr:C15/weights', 'moments-raise', sig0, c, dict(impl=str(r['moments'])))
            continue
        ivs = [[pts[j], pts[j + 1], r['moments'][j][0], r['moments'][j][1]] for j in range(n - 1)]
        fa = F(c['a']) if not math.isinf(c['a']) else F(0)
        fb = F(c['b']) if not math.isinf(c['b']) else F(0)
        mcases.append((0, [c['boundary'], c['mb'], fa, fb, ivs])); midx.append((i, 'w', None))
        finite = all(p[0] == 0 for p in pts)
        if fam == 'Uniform' and finite:
            mcases.append((1, [c['boundary'], F(c['a']), F(c['b']), [qq(p[1]) for p in pts]])); midx.append((i, 'closed', None))
        if fam == 'Triangle' and finite:
            mcases.append((2, [c['boundary'], F(c['a']), F(c['distr'][1]), F(c['b']), [qq(p[1]) for p in pts]])); midx.append((i, 'closed', None))
    mres = run_model(15, mcases)
    by = {}
    for (i, what, rec), mr in zip(midx, mres):
        if what == 'mid':
            want = None if mr == [0] else mr[1]
            got = rec['mid']
            ok = (want is None and got is None) or (want is not None and got is not None and ext_close(want, got))
            if not ok:
                c = cases[i]
                chk.violation('corr:C15/mid', 'mid-differs', dict(family=c['distr'][0]),
                              dict(kind='mid', distr=c['distr'], a=ext_float(rec['a']), b=ext_float(rec['b'])),
                              dict(impl=str(got), model=str(want), record=str(rec)[:300]), failing_input=False)
        else:
            by.setdefault(i, {})[what] = mr
    maxdev = chk.extra.setdefault('max_rel_deviation_first_moment_vs_closed_form', {})
    for i, c in enumerate(cases):
        if i not in by:
            continue
        st, r = impl[i]
        fam = c['distr'][0]
        sig0 = dict(family=fam, boundary=int(c['boundary']), mb=int(c['mb']), infinite=int(math.isinf(c['a']) or math.isinf(c['b'])))
        pts = r['pts']; n = len(pts)
        mw = by[i]['w']
        chk.traces += 1
        bad = []
        for obs in ('weights', 'static'):
            iw = r[obs]
            if iw[0] == 'exc':
                if mw != [0]:
                    bad.append((obs + ' raises', dict(impl=iw, model='accepts')))
                else:
                    chk.count('weights:rejected-by-both')
                continue
            wl = iw[1]
            if mw == [0] or sx.is_err(mw):
                # the model's "raise" cases: assert boundary or n > 3; negative weight beyond the clipping tolerance; zero inner sum
                bad.append((obs + ': model rejects', dict(impl=str(wl)[:200], model=str(mw))))
                continue
            mwl = [sx.q(x) for x in mw[1]]
            if obs == 'weights' and not c['boundary']:
                mwl = mwl[1:-1]                                  # set_grid strips the boundary entries
            tols = weight_tolerances(c, r, n, obs == 'weights' and not c['boundary'])
            if len(mwl) != len(wl) or not all(abs(x - y) <= t for x, y, t in zip(wl, mwl, tols)):
                j = next((j for j, (x, y, t) in enumerate(zip(wl, mwl, tols)) if abs(x - y) > t), None)
                bad.append((obs, dict(index=j, impl=str(wl[j]) if j is not None else len(wl), model=str(mwl[j]) if j is not None else len(mwl),
                                      tol=float(tols[j]) if j is not None else None)))
        # closed-form instances: the implementation's moments against the exact ones
        if 'closed' in by[i]:
            cw, cm = by[i]['closed']
            for j, ((m0, m1), (e0, e1)) in enumerate(zip(r['moments'], cm)):
                e0, e1 = sx.q(e0), sx.q(e1)
                if abs(m0 - e0) > F(1, 10 ** 12):
                    bad.append(('zeroth moment vs closed form', dict(interval=j, impl=float(m0), exact=float(e0))))
                    break
                dev = abs(m1 - e1) / abs(e1) if e1 != 0 else abs(m1 - e1)
                maxdev[fam] = max(maxdev.get(fam, 0.0), float(dev))
                if abs(m1 - e1) > F(1, 100) * abs(e1) + F(1, 10 ** 12):
                    bad.append(('first moment vs closed form', dict(interval=j, impl=float(m1), exact=float(e1))))
                    break
        orc = oracle_weights(c, r)
        if orc:
            ca_, cb_ = r['cdf_ab']
            sig0 = dict(sig0, support_covered=int(abs(cb_ - ca_ - 1) <= F(1, 10 ** 12)))
            chk.violation('oracle:weights/' + orc[0], 'weights-' + orc[0], sig0, slim(c), dict(property_predicate=orc[1], points=[ext_float(p) for p in pts][:70],
                                                                                             correspondence=[b_[0] for b_ in bad][:4]))
        elif bad:
            chk.violation('corr:C15/weights', 'weights-differ', dict(sig0, observable=bad[0][0]), slim(c),
                          dict(differs=[dict(observable=o, **dt) for o, dt in bad][:4], points=[ext_float(p) for p in pts][:70],
                               property_predicate='holds on this case'), failing_input=False)
        hyp = hypothesis_check(r, n)
        if hyp:
            chk.count('hypothesis-spot-check:' + hyp)
        if n >= 3:
            keys.append(('w', str(c['distr']), c['boundary'], c['mb'], str(pts)))
        if len(samples) < 3 and n >= 6 and r['weights'][0] == 'ok' and (fam != 'Uniform' or len(samples) == 0):
            samples.append(dict(kind='weights', distribution=c['distr'], boundary=c['boundary'], points=[ext_float(p) for p in pts],
                                impl_weights=[float(x) for x in r['weights'][1]]))


def slim(c):
    return c


def ext_close(want, got):
    if want[0] != 0 or got[0] != 0:
        return want[0] == got[0]
    x, y = qq(want[1]), qq(got[1])
    return abs(x - y) <= F(1, 2 ** 48) * max(abs(x), abs(y), F(1, 2 ** 20))


def weight_tolerances(c, r, n, stripped):
    """Rounding bound of w = (m1 - m0*x1)/(x2-x1) evaluated in binary64: 2^-40 times the cancellation in the numerator
    (|m1| + |m0 x1|)/(x2-x1) + |m0| of the two adjacent intervals; the renormalisation without boundary points multiplies the
    bound by (1/sum)^2 and adds the bound of the sum."""
    if c['mb']:
        return [T40 * 4] * (n - 2 if stripped else n)
    pts = r['pts']
    t = [F(0)] * n
    for j in range(n - 1):
        m0, m1 = r['moments'][j]
        if pts[j][0] == 0 and pts[j + 1][0] == 0:
            x1, x2 = qq(pts[j][1]), qq(pts[j + 1][1])
            s = (abs(m1) + abs(m0 * x1)) / (x2 - x1) + abs(m0) if x2 != x1 else abs(m0)
        else:
            s = abs(m0)
        t[j] += s; t[j + 1] += s
    tol = [T40 * (x + F(1, 2 ** 30)) for x in t]
    if not c['boundary'] and n > 3 and r['static'][0] == 'ok':
        f = max(F(1), 1 / max(sum(r['static'][1][1:-1]), F(1, 2 ** 20)))
        ssum = sum(tol)
        tol = [(x + ssum) * f * f for x in tol]
    return tol[1:-1] if stripped else tol


def oracle_mid(rec):
    a, b = ext_float(rec['a']), ext_float(rec['b'])
    if rec['mid'] is None:
        return ('inside', 'weighted midpoint is NaN')
    m = ext_float(rec['mid'])
    if not (a < m < b):
        return ('inside', 'weighted midpoint %r does not lie strictly inside (%r, %r)' % (m, a, b))
    if not rec['is_float']:
        return ('type', 'weighted midpoint is not a float')
    ca, cb, cm = rec['cdf_a'], rec['cdf_b'], rec['cdf_mid']
    total = cb - ca
    ppf_ok = rec['mid0'] is not None and a < ext_float(rec['mid0']) < b        # the distribution's ppf delivers a point inside
    if total > F(1, 10 ** 12) and ppf_ok:
        # equal probability (only meaningful when the interval carries probability the cdf can resolve)
        if abs((cm - ca) - (cb - cm)) > F(1, 10 ** 8) * total + F(1, 10 ** 15):
            return ('equal-probability', 'P(left) = %.6g, P(right) = %.6g' % (float(cm - ca), float(cb - cm)))
    return None


def oracle_weights(c, r):
    """Property predicate on the implementation's weights alone."""
    if r['weights'][0] == 'exc':
        n = len(r['pts'])
        if c['boundary'] or n > 3 or n in (1, 3):
            return ('exception', 'set_grid raises %s on a valid grid' % (r['weights'][1:],))
        return None
    w = r['weights'][1]
    pts = r['pts']; n = len(pts)
    inner = pts if c['boundary'] else pts[1:-1]
    if len(w) != len(inner) or r['weights'][2] != inner:
        return ('alignment', '%d weights for %d points' % (len(w), len(inner)))
    if not c['mb'] and any(x < 0 for x in w):
        return ('nonneg', 'negative weight %.3g' % float(min(w)))
    s = sum(w)
    ca, cb = r['cdf_ab']
    want = F(1)        # the property: a probability measure (with boundary points the code yields cdf(b) - cdf(a))
    # conditioning of w = (m1 - m0 x1)/(x2 - x1) with moments of absolute accuracy ~1e-16
    fin = [qq(p[1]) for p in pts if p[0] == 0]
    minw = min([y - x for x, y in zip(fin, fin[1:])] or [F(1)])
    cond = F(1, 10 ** 15) * max([abs(x) for x in fin] + [F(1)]) / max(minw, F(1, 10 ** 30))
    if n > 1 and abs(s - want) > F(1, 10 ** 11) + n * cond:
        return ('sum', 'weights sum to %.15g, expected %.15g' % (float(s), float(want)))
    if c['distr'][0] == 'Uniform' and r.get('trap') is not None and n > 1:
        t = r['trap']
        L = F(c['b']) - F(c['a'])
        if c['boundary']:
            ref = [x / L for x in t]
        else:
            ti = t[1:-1]
            ref = [x / sum(ti) for x in ti] if sum(ti) != 0 else None
        f = 1 if c['boundary'] else max(F(1), 1 / sum(t[1:-1]) * L if sum(t[1:-1]) != 0 else F(1))
        if ref is not None and (len(ref) != len(w) or any(abs(x - y) > (F(1, 10 ** 12) + 4 * n * cond) * f * f for x, y in zip(w, ref))):
            return ('uniform', 'weights differ from the unweighted trapezoidal weights / %s' % ('(b-a)' if c['boundary'] else 'their sum'))
    return None


def hypothesis_check(r, n):
    pts = r['pts']
    tot = F(0)
    for j in range(n - 1):
        m0, m1 = r['moments'][j]
        tot += m0
        if m0 < 0:
            return 'm0<0'
        if pts[j][0] == 0 and pts[j + 1][0] == 0:
            x1, x2 = qq(pts[j][1]), qq(pts[j + 1][1])
            slack = F(1, 10 ** 6) * (abs(m1) + abs(m0 * x1) + abs(m0 * x2)) + F(1, 10 ** 14)
            if m1 < x1 * m0 - slack or m1 > x2 * m0 + slack:
                return 'm1-outside-[x1*m0,x2*m0]'
    ca, cb = r['cdf_ab']
    if n > 1 and abs(tot - (cb - ca)) > F(1, 10 ** 12):
        return 'sum-m0'
    return None


# ----------------------------------------------------------------------------------------------- part B
def check_moments(chk, cases, impl, keys, samples):
    mcases, midx = [], []
    for i, c in enumerate(cases):
        st, r = impl[i]
        chk.count('moments:model=%s d=%d boundary=%d' % (c['model'], len(c['a']), c['boundary']))
        if st != 'ok':
            chk.violation('corr:C15/moments', 'worker-failed', dict(status=st), c, dict(impl=str(r)[:300]))
            continue
        if r[0] == 'exc':
            if r[2].startswith('Grid.py:11') or 'GridOperation.py:35' in r[2] or 'GridOperation.py:39' in r[2]:
                # raised inside the weighted quadrature / distribution code (e.g. 'calculated negative weight')
                chk.violation('oracle:moments/exception', 'moments-law', dict(clause='exception', boundary=int(c['boundary']),
                                                                            shared_distribution=shared_distribution(c), truncated_normal=0), c,
                              dict(property_predicate='the UQ run raises inside the weighted quadrature', exception=r[1:]))
            else:
                # the adaptive driver / error estimator is not C15's business: counted, not judged
                chk.count('moments:run-raised %s %s' % (r[1], r[2]))
            continue
        if r[0] == 'nan':
            chk.violation('oracle:moments/finite', 'moments-law', dict(clause='finite', boundary=int(c['boundary']), shared_distribution=shared_distribution(c),
                                                                     truncated_normal=0), c,
                          dict(property_predicate='expectation / variance / combined weights are NaN or infinite', result=str(r[1])[:300]))
            continue
        mcases.append((5, [r[1]['integral']])); midx.append(i)
    mres = run_model(15, mcases)
    for i, mr in zip(midx, mres):
        c = cases[i]; r = impl[i][1][1]
        chk.traces += 1
        sig0 = dict(boundary=int(c['boundary']), shared_distribution=shared_distribution(c),
                    truncated_normal=int(any(d[0] == 'Normal' and not math.isinf(lo) for d, lo in zip(c['distrs'], c['a']))))
        mE = [sx.q(x) for x in mr[0]]; mV = [sx.q(x) for x in mr[1]]
        integral = r['integral']
        k = len(integral) // 2
        bad = None
        if mE != r['E']:
            bad = ('expectation', dict(impl=[float(x) for x in r['E']], model=[float(x) for x in mE]))
        else:
            for j in range(k):
                tol = F(1, 2 ** 45) * (abs(integral[k + j]) + integral[j] ** 2)
                if abs(mV[j] - r['V'][j]) > tol:
                    bad = ('variance', dict(component=j, impl=float(r['V'][j]), model=float(mV[j])))
        if any(integral[k + j] - integral[j] ** 2 < -F(1, 10 ** 9) * (1 + abs(integral[k + j])) for j in range(k)):
            chk.count('moments:raw-variance-negative (mom2 < mom1^2)')
            chk.extra['raw_variance_negative_cases'] = chk.extra.get('raw_variance_negative_cases', 0) + 1
            if 'raw_negative_sample' not in chk.extra:
                chk.extra['raw_negative_sample'] = dict(case=c, mom1=[float(x) for x in integral[:k]], mom2=[float(x) for x in integral[k:]],
                                                        impl_variance=[float(x) for x in r['V']])
        orc = oracle_moments(c, r)
        if orc:
            chk.violation('oracle:moments/' + orc[0], 'moments-law', dict(sig0, clause=orc[0]), c, dict(property_predicate=orc[1], E=[float(x) for x in r['E']],
                                                                                         V=[float(x) for x in r['V']], wsum=float(r['wsum'])))
        elif bad:
            chk.violation('corr:C15/moments', 'moments-differ', dict(sig0, observable=bad[0]), c, dict(bad[1], property_predicate='holds'),
                          failing_input=False)
        if r['npoints'] >= 5:
            keys.append(('m', str(c['distrs']), c['boundary'], c['c'], c['e'], c['model'], c['maxev'], c['lmax']))
        if len(samples) < 5 and c['model'] != 'const' and r['npoints'] > 20:
            samples.append(dict(kind='moments', distributions=c['distrs'], c=c['c'], e=c['e'], E=[float(x) for x in r['E']],
                                Var=[float(x) for x in r['V']], points=r['npoints']))


def shared_distribution(c):
    """Two dimensions with the same distribution description but different domains [a_d,b_d] (uniform / triangle depend on them)."""
    n = len(c['a'])
    return int(any(c['distrs'][i] == c['distrs'][j] and c['distrs'][i][0] in ('Uniform', 'Triangle')
                   and (c['a'][i], c['b'][i]) != (c['a'][j], c['b'][j]) for i in range(n) for j in range(i + 1, n)))


def oracle_moments(c, r):
    E, V = r['E'], r['V']
    cc, e = F(c['c']), F(c['e'])
    G = F(2)                                               # |f| <= 2 for all model functions used
    if c['model'] == 'const':
        G = abs(F(c['const']))
    scale = abs(cc) * G + abs(e) + 1
    wabs = r['wabs']
    if abs(r['wsum'] - 1) > F(1, 10 ** 11) * (1 + wabs):
        return ('weights-sum', 'combined weights sum to %.15g' % float(r['wsum']))
    if any(v < 0 for v in V):
        return ('variance-negative', 'negative variance %s' % float(min(V)))
    if abs(E[1] - (cc * E[0] + e)) > F(1, 10 ** 9) * scale * (1 + wabs):
        return ('expectation-affine', 'E[c f + e] = %.15g, c E[f] + e = %.15g' % (float(E[1]), float(cc * E[0] + e)))
    if abs(V[1] - cc * cc * V[0]) > F(1, 10 ** 9) * scale * scale * (1 + wabs):
        return ('variance-affine', 'Var[c f + e] = %.15g, c^2 Var[f] = %.15g' % (float(V[1]), float(cc * cc * V[0])))
    if c['model'] == 'const':
        k = F(c['const'])
        if abs(E[0] - k) > F(1, 10 ** 10) * (1 + abs(k)) * (1 + wabs) or abs(V[0]) > F(1, 10 ** 9) * (1 + k * k) * (1 + wabs):
            return ('constant-model', 'constant model %s: E = %.15g, Var = %.3g' % (float(k), float(E[0]), float(V[0])))
    return None


# ----------------------------------------------------------------------------------------------- fixed corpus
def corpus():
    w = []
    for distr, a, b in [(['Uniform'], 0.0, 1.0), (['Triangle', 0.25], 0.0, 1.0), (['Normal', 0.2, 1.0], -math.inf, math.inf)]:
        for bd in (True, False):
            for n, picks in [(3, [0.0]), (4, [0.0, 0.0]), (6, [0.0, 0.9, 0.3, 0.5])]:
                w.append(dict(kind='weights', distr=distr, a=a, b=b, boundary=bd, mb=False, n=n, style='random', picks=picks))
    w.append(dict(kind='weights', distr=['Uniform'], a=-1.0, b=3.0, boundary=False, mb=True, n=7, style='random', picks=[0.1, 0.9, 0.3, 0.5, 0.7]))
    m = [dict(kind='moments', distrs=[['Normal', 0.2, 1.0], ['Normal', 0.2, 1.0]], a=[-math.inf, -math.inf], b=[math.inf, math.inf], boundary=False,
              c=3.0, e=-2.0, model='jump', const=1.75, maxev=60, lmax=2),
         dict(kind='moments', distrs=[['Uniform'], ['Triangle', 0.25]], a=[-1.0, 0.0], b=[3.0, 1.0], boundary=True,
              c=3.0, e=-2.0, model='const', const=1.75, maxev=40, lmax=2)]
    m.append(dict(kind='moments', distrs=[['Uniform'], ['Uniform']], a=[0.0, 0.0], b=[1.0, 1.0], boundary=False, c=2.0, e=1.0, model='peak',
                  pos=[0.5, 0.25], width=200.0, const=0.0, maxev=10, lmax=2))
    m.append(dict(kind='moments', distrs=[['Uniform'], ['Uniform']], a=[0.0, 0.0], b=[1.0, 1.0], boundary=True, c=-3.0, e=0.25, model='peak',
                  pos=[0.5, 0.5], width=200.0, const=0.0, maxev=10, lmax=2))
    m.append(dict(kind='moments', distrs=[['Normal', 0.0, 1.0], ['Normal', 0.0, 1.0]], a=[-math.inf, -math.inf], b=[math.inf, math.inf],
                  boundary=False, c=2.0, e=1.0, model='peak', pos=[0.0, 0.0], width=8.0, const=0.0, maxev=10, lmax=2))
    m.append(dict(kind='moments', distrs=[['Normal', 0.0, 1.0], ['Normal', 0.0, 1.0]], a=[-math.inf, -math.inf], b=[math.inf, math.inf],
                  boundary=False, c=0.5, e=-2.0, model='osc', pos=[0.0, 0.0], width=8.0, const=0.0, maxev=10, lmax=2))
    # exemplars of the known findings
    w.append(dict(kind='weights', distr=['Normal', 0.0, 1.0], a=-2.0, b=2.0, boundary=True, mb=False, n=6, style='random', picks=[0.0, 0.9, 0.3, 0.5]))
    m.append(dict(kind='moments', distrs=[['Uniform'], ['Uniform']], a=[0.0, 2.0], b=[1.0, 2.5], boundary=True, c=-3.0, e=0.0, model='jump',
                  const=-2.0, maxev=20, lmax=2))
    m.append(dict(kind='moments', distrs=[['Uniform'], ['Uniform']], a=[2.0, -1.0], b=[2.5, 3.0], boundary=True, c=2.0, e=1.0, model='smooth',
                  const=-2.0, maxev=40, lmax=3))      # same finding, seen as 'calculated negative weight'
    m.append(dict(kind='moments', distrs=[['Uniform'], ['Normal', -3.0, 0.5]], a=[-3.0, -4.0], b=[6.0, -2.0], boundary=True, c=0.5, e=1.0,
                  model='jump', const=1.75, maxev=20, lmax=2))
    return w, m


def run(chk):
    chk.coq_obligations()
    rng = chk.rng
    wfix, mfix = corpus()
    wcases = wfix + [gen_weight_case(rng) for _ in range(chk.n(300, 10000))]
    mcases = mfix + [gen_moment_case(rng) for _ in range(chk.n(80, 1200))]
    keys, samples = [], []
    wimpl = run_impl(impl_weights, wcases, limit=120)
    check_weights(chk, wcases, wimpl, keys, samples)
    mimpl = run_impl(impl_moments, mcases, limit=300)
    check_moments(chk, mcases, mimpl, keys, samples)
    chk.record_cases(len(wcases) + len(mcases), keys,
                     'weights: (distribution in uniform/triangle/normal, finite or infinite support, boundary, modified basis for uniform, '
                     'refinement tree of 1..60 points built with the grid\'s own weighted midpoint, 5 grading styles); moments: adaptive '
                     'runs (d 1..2, 1..70 evaluations) of a vector model (f, c f + e) incl. sharply peaked / oscillating models in d = 2 whose raw combined '
                     'variance mom2 - mom1^2 is negative (counted in evidence: raw_variance_negative_cases); non-trivial = >= 3 grid points resp. >= 5 sparse '
                     'grid points; distinct by all parameters', samples)


def replay(chk, rep):
    c = rep['case']
    if c.get('kind') == 'moments':
        st, r = run_impl(impl_moments, [c], limit=300)[0]
        print('impl:', st, str(r)[:1500])
        if st == 'ok' and r[0] == 'ok':
            o = oracle_moments(c, r[1])
            print('model:', run_model(15, [(5, [r[1]['integral']])])[0])
            print('property predicate:', o or 'holds')
            return 1 if o else 0
        return 0
    if c.get('kind') == 'mid':
        import numpy as np
        wc = dict(kind='weights', distr=c['distr'], a=c['a'], b=c['b'], boundary=False, mb=False, n=3, style='random', picks=[0.0])
        st, r = run_impl(impl_weights, [wc])[0]
        print('impl:', st, str(r.get('mids') if isinstance(r, dict) else r)[:1500])
        if st == 'ok' and r.get('mids'):
            o = oracle_mid(r['mids'][0])
            print('property predicate:', o or 'holds')
            return 1 if o else 0
        return 0
    st, r = run_impl(impl_weights, [c])[0]
    print('impl:', st, str(r)[:2500])
    if st == 'ok' and 'setup' not in r:
        o = oracle_weights(c, r)
        print('property predicate:', o or 'holds')
        if o:
            return 1
        for rec in r['mids']:
            o = oracle_mid(rec)
            if o:
                print('midpoint predicate:', o)
                return 1
    return 0
