"""C18: source-derived model of the scaling bookkeeping of class DataSet (DESIGN.md 0.5 scheme).
coq/Gen/DataSetScalingGen.v is regenerated from the working tree ($VERIF_REPO) by harness/translate/py2gallina_c18.py (own small
front end in the pattern of py2gallina_machine.py) under the build lock, before the proof obligations are (re)built;
Props/C18gen.v holds the equivalence theorems (generated = bookkeeping of Model/DataSetOff.v) and their consequences."""
import fcntl
import hashlib
import os
import re
import subprocess
import sys
from ..core import ROOT, COQ
from .. import gen

TRANSLATOR = os.path.join(ROOT, 'harness', 'translate', 'py2gallina_c18.py')
GEN_FILE = 'DataSetScalingGen.v'
GEN_CHAIN = ['Gen/DataSetScalingGen.v', 'Proofs/GenDataSetScalingEq.v', 'Props/C18gen.v']
EXTRA_PROPS = ('C18gen',)
ASSUMPTION = (
    'source-derived model of the scaling bookkeeping (py2gallina_c18.py): Python `ast` and the translation scheme are trusted; DataSet.scale_range, '
    'scale_factor, shift_value and revert_scaling are translated statement by statement into an object machine over the attributes _data, _dim, '
    '_scaled, _scaling_range, _scaling_factor, _scaling_offset, _original_min, _original_max (branch structure, attribute writes and their order, '
    'accumulation arithmetic, evaluation order, state left by an exception, calls inside revert_scaling); the numpy / scikit-learn expressions '
    '(MinMaxScaler fit/transform/scale_/min_, map-lambda over the samples, amin/amax, get_min_data/get_max_data, the isinstance-length guard) are '
    'accepted only in their exact source text and are PARAMETERS of the generated Section, instantiated by hand with the primitives of '
    'Model/DataSet.v (floats as exact rationals; 1.0/x with a zero entry modelled as raising); anything else in the four methods is rejected')


def regenerate(chk):
    with open(os.path.join(ROOT, '.buildlock'), 'w') as lk:
        fcntl.flock(lk, fcntl.LOCK_EX)
        p = subprocess.run([sys.executable, TRANSLATOR], capture_output=True, text=True)
    msg = '\n'.join(l for l in p.stderr.splitlines() if 'conda' not in l).strip()
    chk.checker_cmds.append('/venv/bin/python harness/translate/py2gallina_c18.py  (regenerates coq/Gen/%s from sparseSpACE/DEMachineLearning.py)' % GEN_FILE)
    info = dict(rc=p.returncode, message=msg, target='dataset-scaling')
    try:
        src = open(os.path.join(COQ, 'Gen', GEN_FILE)).read()
        info['generated_sha256'] = hashlib.sha256(src.encode()).hexdigest()
        info['translated'] = re.findall(r'^\(\* (\S+:\d+-\d+)  (\S+) \*\)$', src, re.M)
    except OSError:
        pass
    chk.extra['source_derived_model'] = info
    return info


def diagnose(chk, info):
    """after coq_obligations: None when the generated model is in place and proved equivalent, else the reason"""
    problem = gen.gen_diagnosis(chk, info, GEN_CHAIN)
    gen.report(chk, info, problem, 'C18_gen_*')
    return problem


def finish(chk, info, problem):
    gen.finish_gen(chk, info, problem)
