#!/bin/bash
# tools_seed.sh Cxx [name] : (re-)verify a seeded change against the CURRENT /repo HEAD.
# Takes deliverables from /tmp/seed-<name>-out if present (first time), else from /verif/seeded/<name>/.
# Applies patch.diff to a fresh scratch worktree of /repo HEAD, runs the demo on /repo (expect PASS) and on the
# worktree (expect FAIL), runs ./check Cxx against the worktree, stores logs + meta.json, removes the worktree.
P=$1; N=${2:-$1}; OUT=/tmp/seed-$N-out; D=/verif/seeded/$N; WT=/tmp/seedrun-$N
mkdir -p $D
if [ -f $OUT/patch.diff ]; then cp $OUT/patch.diff $OUT/demo.py $D/; cp $OUT/meta.json $D/meta.agent.json; fi
git -C /repo worktree remove --force $WT 2>/dev/null; git -C /repo worktree add -q --detach $WT HEAD 2>&1 | grep -v conda
PF=$D/patch.diff; [ -f $D/patch.rebased.diff ] && PF=$D/patch.rebased.diff
( cd $WT && git apply $PF ) > $D/apply.log 2>&1; ap=$?
cd /verif
PYTHONPATH=/repo /venv/bin/python $D/demo.py > $D/demo.unchanged.log 2>&1; r0=$?
PYTHONPATH=$WT /venv/bin/python $D/demo.py > $D/demo.changed.log 2>&1; r1=$?
cp evidence/$P.json /tmp/evidence-$P.keep 2>/dev/null
VERIF_REPO=$WT ./check $P --tier quick > $D/check.changed.log 2>&1; rc=$?
cp /tmp/evidence-$P.keep evidence/$P.json 2>/dev/null   # evidence must describe the unchanged tree
nv=$(grep -c '^VIOLATION' $D/check.changed.log)
nf=$(grep '^VIOLATION' $D/check.changed.log | grep -vc 'no-failing-input-found')
python3 - <<PY
import json,os
a=json.load(open('$D/meta.agent.json'))
old=json.load(open('$D/meta.json')) if os.path.exists('$D/meta.json') else {}
m=dict(property='$P', summary=a.get('summary'), needs_to_manifest=a.get('needs_to_manifest'), tests_run_by_author=a.get('tests_run'),
       lead_verification=dict(repo_head=os.popen('git -C /repo rev-parse --short HEAD').read().strip().splitlines()[-1], patch_applies=($ap==0),
                              demo_exit_unchanged=$r0, demo_exit_changed=$r1, check_cmd='VERIF_REPO=<fresh worktree of /repo HEAD with patch.diff applied> ./check $P --tier quick',
                              check_exit=$rc, violation_lines=$nv, with_concrete_failing_input=$nf))
if 'history' in old: m['history']=old['history']
json.dump(m, open('$D/meta.json','w'), indent=1)
print(json.dumps(m['lead_verification']))
PY
grep -h '^VIOLATION' $D/check.changed.log | head -3 | cut -c1-160
git -C /repo worktree remove --force $WT
