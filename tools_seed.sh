#!/bin/bash
# tools_seed.sh Cxx [name] : verify a seeded change delivered in /tmp/seed-<name>-out (worktree /tmp/seed-<name>), run the
# check of property Cxx against the changed tree (VERIF_REPO=worktree), store everything in /verif/seeded/<name>/.
P=$1; N=${2:-$1}; OUT=/tmp/seed-$N-out; WT=/tmp/seed-$N; D=/verif/seeded/$N
mkdir -p $D; cp $OUT/patch.diff $OUT/demo.py $D/; cp $OUT/meta.json $D/meta.agent.json
cd /verif
PYTHONPATH=/repo /venv/bin/python $D/demo.py > $D/demo.unchanged.log 2>&1; r0=$?
PYTHONPATH=$WT /venv/bin/python $D/demo.py > $D/demo.changed.log 2>&1; r1=$?
VERIF_REPO=$WT ./check $P --tier quick > $D/check.changed.log 2>&1; rc=$?
nv=$(grep -c '^VIOLATION' $D/check.changed.log)
nf=$(grep '^VIOLATION' $D/check.changed.log | grep -vc 'no-failing-input-found')
python3 - <<PY
import json
a=json.load(open('$D/meta.agent.json'))
m=dict(property='$P', summary=a.get('summary'), needs_to_manifest=a.get('needs_to_manifest'), tests_run_by_author=a.get('tests_run'),
       lead_verification=dict(demo_exit_unchanged=$r0, demo_exit_changed=$r1, check_cmd='VERIF_REPO=<tree with patch> ./check $P --tier quick',
                              check_exit=$rc, violation_lines=$nv, with_concrete_failing_input=$nf))
json.dump(m, open('$D/meta.json','w'), indent=1)
print(json.dumps(m['lead_verification']))
PY
tail -n 4 $D/check.changed.log | grep -v conda
